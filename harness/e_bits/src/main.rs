//! C11 — bit-level buffer operations vs. a Vec<bool> model.
//!
//! Part A (E-enum): every (src, off, dst, pos, len) on the ten BitWrite/BitRead entry points of the
//!   slice tuples, buffers up to 4 (quick) / 5 (thorough) bytes.
//! Part B (E-bfs): operation histories on the growable `BitBuffer`.
//! Part C (E-bfs to fixpoint): operation histories on the read view `Bits`.

use asn1rs::protocol::per::unaligned::buffer::{BitBuffer, Bits};
use asn1rs::protocol::per::unaligned::{BitRead, BitWrite, ScopedBitRead};
use rayon::prelude::*;
use serde_json::{json, Map, Value};
use std::collections::{BTreeMap, BTreeSet, HashSet};
use vcore::refbits::{copy, hex, pack, unhex, unpack, unpack_n};
use vcore::report::*;

// ---------------------------------------------------------------------------------------------
// Part A: slice tuples
// ---------------------------------------------------------------------------------------------

#[derive(Clone, Debug)]
struct SliceCase {
    write: bool, // true: BitWrite on (&mut dst, &mut pos); false: BitRead on (&src, &mut off)
    entry: u8,   // 0 with_offset_len, 1 plain, 2 with_offset, 3 with_len
    src: Vec<u8>,
    src_off: usize,
    dst: Vec<u8>,
    dst_pos: usize,
    len: usize,
}

const ENTRY_NAMES: [&str; 4] = ["with_offset_len", "plain", "with_offset", "with_len"];

impl SliceCase {
    fn to_json(&self) -> Value {
        json!({"kind":"slice","write":self.write,"entry":self.entry,"src":hex(&self.src),"src_off":self.src_off,
               "dst":hex(&self.dst),"dst_pos":self.dst_pos,"len":self.len})
    }
    fn from_json(v: &Value) -> Self {
        SliceCase {
            write: v["write"].as_bool().unwrap(),
            entry: v["entry"].as_u64().unwrap() as u8,
            src: unhex(v["src"].as_str().unwrap()),
            src_off: v["src_off"].as_u64().unwrap() as usize,
            dst: unhex(v["dst"].as_str().unwrap()),
            dst_pos: v["dst_pos"].as_u64().unwrap() as usize,
            len: v["len"].as_u64().unwrap() as usize,
        }
    }
}

/// Returns (effective len or None if the entry point's implied length is undefined)
fn effective_len(c: &SliceCase) -> Option<usize> {
    // which side provides the "argument buffer" whose length implies len?
    let (arg_bits, arg_off) = if c.write {
        (c.src.len() * 8, c.src_off)
    } else {
        (c.dst.len() * 8, c.dst_pos)
    };
    match c.entry {
        0 | 3 => Some(c.len),
        1 => Some(arg_bits),
        2 => arg_bits.checked_sub(arg_off),
        _ => unreachable!(),
    }
}

struct SliceObs {
    result: Result<Result<(), String>, String>, // outer Err = panic
    dst: Vec<u8>,
    cursor: usize,
}

fn run_slice(c: &SliceCase) -> SliceObs {
    let mut dst = c.dst.clone();
    let mut cursor = if c.write { c.dst_pos } else { c.src_off };
    let result = catch(|| {
        if c.write {
            let mut w = (&mut dst[..], &mut cursor);
            match c.entry {
                0 => w.write_bits_with_offset_len(&c.src, c.src_off, c.len),
                1 => w.write_bits(&c.src),
                2 => w.write_bits_with_offset(&c.src, c.src_off),
                3 => w.write_bits_with_len(&c.src, c.len),
                _ => unreachable!(),
            }
        } else {
            let mut r = (&c.src[..], &mut cursor);
            match c.entry {
                0 => r.read_bits_with_offset_len(&mut dst, c.dst_pos, c.len),
                1 => r.read_bits(&mut dst),
                2 => r.read_bits_with_offset(&mut dst, c.dst_pos),
                3 => r.read_bits_with_len(&mut dst, c.len),
                _ => unreachable!(),
            }
        }
        .map_err(|e| vcore::subject::per_err_kind(&e))
    });
    SliceObs { result, dst, cursor }
}

fn check_slice(c: &SliceCase) -> Option<Failure> {
    let obs = run_slice(c);
    let srcb = unpack(&c.src);
    let dstb = unpack(&c.dst);
    let elen = effective_len(c);
    let model = elen.and_then(|l| copy(&srcb, c.src_off, &dstb, c.dst_pos, l));
    let start = if c.write { c.dst_pos } else { c.src_off };
    let shape = match elen {
        Some(l) if l > 16 => {
            if c.dst_pos % 8 == 0 { "bulk-dst-aligned" } else { "bulk-dst-unaligned" }
        }
        Some(_) => "small",
        None => "offset-beyond-buffer",
    };
    let dir = if c.write { "write" } else { "read" };
    let mk = |kind: &str, expected: String, observed: String| {
        Some(Failure {
            class: format!("slice.{dir}.{}.{shape}.{kind}", ENTRY_NAMES[c.entry as usize]),
            case: c.to_json(),
            expected,
            observed,
        })
    };
    match (&obs.result, &model) {
        (Err(p), _) => mk(
            "panic",
            if model.is_some() { "Ok".into() } else { "Err".into() },
            format!("panic: {p}"),
        ),
        (Ok(Ok(())), None) => mk(
            "ok-but-too-short",
            "Err (source or destination too short)".into(),
            format!("Ok, dst={} cursor={}", hex(&obs.dst), obs.cursor),
        ),
        (Ok(Err(e)), Some(_)) => mk("err-but-admissible", "Ok".into(), format!("Err({e})")),
        (Ok(Err(_)), None) => {
            // a failed copy consumes nothing: the cursor stays where it was (otherwise the next
            // read/write silently skips bits)
            if obs.cursor != start {
                mk("cursor-moved-on-err", format!("cursor={start}"), format!("cursor={}", obs.cursor))
            } else {
                None
            }
        }
        (Ok(Ok(())), Some(m)) => {
            let l = elen.unwrap();
            let got = unpack(&obs.dst);
            if got[c.dst_pos..c.dst_pos + l] != m[c.dst_pos..c.dst_pos + l] {
                mk("wrong-copied-bits", format!("dst={}", hex(&pack(m))), format!("dst={}", hex(&obs.dst)))
            } else if &got != m {
                mk("clobbered-other-bits", format!("dst={}", hex(&pack(m))), format!("dst={}", hex(&obs.dst)))
            } else if obs.cursor != start + l {
                mk("cursor", format!("cursor={}", start + l), format!("cursor={}", obs.cursor))
            } else {
                None
            }
        }
    }
}

/// single bit entry points at every position incl. exactly the end and one past
fn check_single_bits(max_len: usize, out: &mut Vec<Failure>, evals: &mut u64) {
    for n in 0..=max_len {
        for fill in [0x00u8, 0xFF, 0xA5] {
            let buf = vec![fill; n];
            for pos in 0..=n * 8 + 1 {
                // read_bit
                *evals += 1;
                let mut cur = pos;
                let r = catch(|| (&buf[..], &mut cur).read_bit().map_err(|e| vcore::subject::per_err_kind(&e)));
                let exp = unpack(&buf).get(pos).copied();
                let case = json!({"kind":"slice-bit","write":false,"buf":hex(&buf),"pos":pos});
                let where_ = if pos == n * 8 { "at-end" } else if pos > n * 8 { "past-end" } else { "inside" };
                match (&r, exp) {
                    (Err(p), _) => out.push(Failure { class: format!("slice.read.bit.{where_}.panic"), case, expected: format!("{exp:?}"), observed: format!("panic: {p}") }),
                    (Ok(Ok(b)), Some(e)) if *b == e && cur == pos + 1 => {}
                    (Ok(Err(_)), None) => {}
                    (Ok(o), e) => out.push(Failure { class: format!("slice.read.bit.{where_}.wrong"), case, expected: format!("{e:?} cursor+1"), observed: format!("{o:?} cursor={cur}") }),
                }
                // write_bit
                for bit in [false, true] {
                    *evals += 1;
                    let mut dst = buf.clone();
                    let mut cur = pos;
                    let r = catch(|| (&mut dst[..], &mut cur).write_bit(bit).map_err(|e| vcore::subject::per_err_kind(&e)));
                    let mut model = unpack(&buf);
                    let ok = pos < model.len();
                    if ok {
                        model[pos] = bit;
                    }
                    let case = json!({"kind":"slice-bit","write":true,"bit":bit,"buf":hex(&buf),"pos":pos});
                    match (&r, ok) {
                        (Err(p), _) => out.push(Failure { class: format!("slice.write.bit.{where_}.panic"), case, expected: if ok { "Ok".into() } else { "Err".into() }, observed: format!("panic: {p}") }),
                        (Ok(Ok(())), true) if unpack(&dst) == model && cur == pos + 1 => {}
                        (Ok(Err(_)), false) => {}
                        (Ok(o), _) => out.push(Failure { class: format!("slice.write.bit.{where_}.wrong"), case, expected: format!("ok={ok} dst={}", hex(&pack(&model))), observed: format!("{o:?} dst={} cursor={cur}", hex(&dst)) }),
                    }
                }
            }
        }
    }
}

fn fill_pattern(kind: u8, n: usize) -> Vec<u8> {
    match kind {
        0 => vec![0xFF; n],
        1 => vec![0x00; n],
        2 => (0..n).map(|i| (i as u8).wrapping_mul(37).wrapping_add(0xA5)).collect(),
        _ => unreachable!(),
    }
}

/// Part A2: long copies (buffers of 12/20/40 bytes), every (src offset 0..15, dst position 0..15,
/// length), three fills x three patterns: reaches any word-wise fast path (>= 8 whole bytes).
fn part_a2_tasks(tier: Tier) -> Vec<(bool, usize, u8, u8)> {
    let sizes: &[usize] = if tier.is_thorough() { &[12, 20, 40] } else { &[12, 20] };
    let mut t = vec![];
    for write in [true, false] {
        for &n in sizes {
            for sp in 0..3u8 {
                for df in 0..3u8 {
                    t.push((write, n, sp, df));
                }
            }
        }
    }
    t
}

fn run_a2_task(task: (bool, usize, u8, u8), evals: &mut u64, nontrivial: &mut u64, fails: &mut BTreeMap<String, (u64, Failure)>) {
    let (write, n, sp, df) = task;
    let src = fill_pattern(sp, n);
    let dst = fill_pattern(df, n);
    for src_off in 0..16 {
        for dst_pos in 0..16 {
            for len in 0..=n * 8 - 15 {
                let c = SliceCase { write, entry: 0, src: src.clone(), src_off, dst: dst.clone(), dst_pos, len };
                *evals += 1;
                if len > 0 {
                    *nontrivial += 1;
                }
                if let Some(mut f) = check_slice(&c) {
                    f.class = f.class.replacen("slice.", "slice-long.", 1);
                    let e = fails.entry(f.class.clone()).or_insert((0, f));
                    e.0 += 1;
                }
            }
        }
    }
}

struct PartAResult {
    evals: u64,
    nontrivial: u64,
    failures: BTreeMap<String, (u64, Failure)>,
    samples: Vec<Value>,
}

fn part_a(tier: Tier) -> PartAResult {
    let maxb = if tier.is_thorough() { 5 } else { 4 };
    let fills: &[u8] = if tier.is_thorough() { &[0, 1, 2] } else { &[0, 1] };
    let pats: &[u8] = if tier.is_thorough() { &[0, 1, 2] } else { &[1, 2] };
    let mut tasks = vec![];
    for write in [true, false] {
        for entry in 0..4u8 {
            for sl in 0..=maxb {
                for dl in 0..=maxb {
                    for &sp in pats {
                        for &df in fills {
                            tasks.push((write, entry, sl, dl, sp, df));
                        }
                    }
                }
            }
        }
    }
    // error-heavy: shard over processes (see vcore::shard)
    if let Some((i, n)) = vcore::shard::my_shard() {
        let mut evals = 0u64;
        let mut nontrivial = 0u64;
        let mut fails: BTreeMap<String, (u64, Failure)> = BTreeMap::new();
        let mut samples = vec![];
        for (ti, &(write, entry, sl, dl, sp, df)) in tasks.iter().enumerate() {
            if ti % n != i {
                continue;
            }
            let src = fill_pattern(sp, sl);
            let dst = fill_pattern(df, dl);
            let maxlen = sl.max(dl) * 8 + 1;
            for src_off in 0..=sl * 8 + 1 {
                for dst_pos in 0..=dl * 8 + 1 {
                    let arg_off = if write { src_off } else { dst_pos };
                    if (entry == 1 || entry == 3) && arg_off != 0 {
                        continue; // these entry points have no offset parameter
                    }
                    for len in 0..=maxlen {
                        if (entry == 1 || entry == 2) && len != 0 {
                            continue; // these entry points have no len parameter
                        }
                        let c = SliceCase { write, entry, src: src.clone(), src_off, dst: dst.clone(), dst_pos, len };
                        evals += 1;
                        if let Some(l) = effective_len(&c) {
                            if l > 0 && src_off + l <= sl * 8 && dst_pos + l <= dl * 8 {
                                nontrivial += 1;
                                if samples.len() < 1 && l > 16 && dst_pos % 8 != 0 && sl >= 3 {
                                    samples.push(c.to_json());
                                }
                            }
                        }
                        if let Some(f) = check_slice(&c) {
                            let e = fails.entry(f.class.clone()).or_insert((0, f));
                            e.0 += 1;
                        }
                    }
                }
            }
        }
        for (ti, task) in part_a2_tasks(tier).into_iter().enumerate() {
            if ti % n == i {
                run_a2_task(task, &mut evals, &mut nontrivial, &mut fails);
            }
        }
        vcore::shard::emit_shard_result(&json!({"evals": evals, "nontrivial": nontrivial, "failures": failures_to_json(&fails), "samples": samples}));
    }
    let mut out = PartAResult { evals: 0, nontrivial: 0, failures: BTreeMap::new(), samples: vec![] };
    for r in vcore::shard::run_shards("A", vcore::shard::default_shards()) {
        out.evals += r["evals"].as_u64().unwrap();
        out.nontrivial += r["nontrivial"].as_u64().unwrap();
        failures_merge_json(&mut out.failures, &r["failures"]);
        for s in r["samples"].as_array().unwrap() {
            if out.samples.len() < 4 {
                out.samples.push(s.clone());
            }
        }
    }
    let mut v = vec![];
    let mut ev = 0;
    check_single_bits(maxb, &mut v, &mut ev);
    out.evals += ev;
    out.nontrivial += ev / 3; // positions inside the buffer (conservative)
    for f in v {
        let ent = out.failures.entry(f.class.clone()).or_insert((0, f));
        ent.0 += 1;
    }
    out
}

// ---------------------------------------------------------------------------------------------
// Part B: BitBuffer histories
// ---------------------------------------------------------------------------------------------

const PAT: [u8; 4] = [0xB7, 0x3C, 0xE1, 0x5A];

#[derive(Clone, Copy, Debug, PartialEq, Eq)]
enum BbAct {
    WBit(bool),
    WOffLen(u8, u8),  // off, len from PAT
    WBits(u8),        // n bytes of PAT
    WWithOffset(u8),  // 2 bytes of PAT, offset
    WWithLen(u8),     // 3 bytes of PAT, len
    WAt(u8, bool),    // with_write_position_at(p, write_bit)
    WAtBits(u8, u8),  // with_write_position_at(p, write_bits(n bytes of PAT)): overwrites inside the written bits
    WAtOffLen(u8, u8, u8), // with_write_position_at(p, write_bits_with_offset_len(PAT, off, len))
    WFailLong(u8),    // write_bits_with_offset_len(3-byte source, off, 24) => Err (3 + 24 > 24), buffer as it was
    WFail,            // 1-byte source, len 9 => must be Err and leave the buffer as it was
    WFailOffset,      // write_bits_with_offset(1-byte source, offset 9) => must be Err
    RBit,
    RLen(u8),         // read_bits_with_len into 3-byte dst
    ROffLen(u8, u8),  // read_bits_with_offset_len into 3-byte dst
    RBits(u8),        // read_bits into n-byte dst
    RWithOffset(u8),  // read_bits_with_offset into 2-byte dst
    RReset,
    RAt(u8),          // with_read_position_at(p, read_bit)
    RDstShort,        // read 9 bits into a 1-byte destination => must be Err and consume nothing
}

fn bb_alphabet(full: bool) -> Vec<BbAct> {
    use BbAct::*;
    let mut v = vec![WBit(false), WBit(true)];
    if full {
        for off in [0u8, 3] {
            for len in [1u8, 7, 8, 9, 16, 17, 24] {
                v.push(WOffLen(off, len));
            }
        }
        v.extend([WBits(1), WBits(3), WWithOffset(5), WWithLen(17), WAt(0, true), WAt(0, false), WAt(5, true), WAt(5, false)]);
        v.extend([WAtBits(0, 1), WAtBits(8, 1), WAtBits(8, 2), WAtBits(3, 1), WAtOffLen(0, 3, 9), WAtOffLen(5, 3, 20), WAtOffLen(8, 0, 17), WFailLong(3), WFailLong(5), WFailLong(1)]);
        v.extend([WFail, WFailOffset, RBit, RLen(1), RLen(8), RLen(17), ROffLen(3, 9), ROffLen(1, 17), RBits(1), RBits(2), RWithOffset(3), RReset, RAt(0), RAt(5), RDstShort]);
    } else {
        v.extend([WOffLen(3, 7), WOffLen(0, 17), WOffLen(3, 24), WBits(1), WAt(5, true), WAtBits(8, 1), WAtOffLen(5, 3, 20), WFailLong(3), WFail, RBit, RLen(8), ROffLen(3, 9), RLen(17), RReset, RDstShort]);
    }
    v
}

type BbState = (Vec<u8>, usize, usize);

#[derive(Debug)]
enum StepOut {
    Disabled,
    Next(BbState),
    Fail(String, String, String), // kind, expected, observed
}

fn bb_step(st: &BbState, a: BbAct) -> StepOut {
    use BbAct::*;
    let (bytes, w, r) = st.clone();
    let model: Vec<bool> = unpack_n(&bytes, w);
    let patb = unpack(&PAT);
    // preconditions that are the caller's obligations (documented panics / debug_asserts)
    match a {
        WAt(p, _) if (p as usize) >= w => return StepOut::Disabled,
        WAtBits(p, n) if p as usize + n as usize * 8 > w => return StepOut::Disabled,
        WAtOffLen(p, _, len) if p as usize + len as usize > w => return StepOut::Disabled,
        RAt(p) if (p as usize) >= w => return StepOut::Disabled,
        _ => {}
    }
    let mut bb = BitBuffer::from_bits_with_position(bytes.clone(), w, r);
    let mut dst3 = [0xAAu8; 3];
    let res: Result<Result<Option<bool>, String>, String> = catch(|| {
        let e = |e: asn1rs::protocol::per::Error| vcore::subject::per_err_kind(&e);
        match a {
            WBit(b) => bb.write_bit(b).map(|_| None).map_err(e),
            WOffLen(off, len) => bb.write_bits_with_offset_len(&PAT, off as usize, len as usize).map(|_| None).map_err(e),
            WBits(n) => bb.write_bits(&PAT[..n as usize]).map(|_| None).map_err(e),
            WWithOffset(off) => bb.write_bits_with_offset(&PAT[..2], off as usize).map(|_| None).map_err(e),
            WWithLen(len) => bb.write_bits_with_len(&PAT[..3], len as usize).map(|_| None).map_err(e),
            WAt(p, b) => bb.with_write_position_at(p as usize, |x| x.write_bit(b)).map(|_| None).map_err(e),
            WAtBits(p, n) => bb.with_write_position_at(p as usize, |x| x.write_bits(&PAT[..n as usize])).map(|_| None).map_err(e),
            WAtOffLen(p, off, len) => bb.with_write_position_at(p as usize, |x| x.write_bits_with_offset_len(&PAT, off as usize, len as usize)).map(|_| None).map_err(e),
            WFailLong(off) => bb.write_bits_with_offset_len(&PAT[..3], off as usize, 24).map(|_| None).map_err(e),
            WFail => bb.write_bits_with_offset_len(&PAT[..1], 0, 9).map(|_| None).map_err(e),
            WFailOffset => bb.write_bits_with_offset(&PAT[..1], 9).map(|_| None).map_err(e),
            RBit => bb.read_bit().map(Some).map_err(e),
            RLen(n) => bb.read_bits_with_len(&mut dst3, n as usize).map(|_| None).map_err(e),
            ROffLen(off, n) => bb.read_bits_with_offset_len(&mut dst3, off as usize, n as usize).map(|_| None).map_err(e),
            RBits(n) => bb.read_bits(&mut dst3[..n as usize]).map(|_| None).map_err(e),
            RWithOffset(off) => bb.read_bits_with_offset(&mut dst3[..2], off as usize).map(|_| None).map_err(e),
            RReset => {
                bb.reset_read_position();
                Ok(None)
            }
            RAt(p) => bb.with_read_position_at(p as usize, |x| x.read_bit()).map(Some).map_err(e),
            RDstShort => bb.read_bits_with_offset_len(&mut dst3[..1], 0, 9).map(|_| None).map_err(e),
        }
    });
    let res = match res {
        Err(p) => return StepOut::Fail("panic".into(), "Ok or Err".into(), format!("panic: {p}")),
        Ok(r) => r,
    };
    // --- model ---
    // writes: (expected_ok, new model bits)
    let mut m = model.clone();
    let mut exp_r = r;
    enum Exp {
        WriteOk,
        WriteErr,
        ReadBit(Option<bool>),           // None => Err expected
        ReadInto(Option<(usize, usize)>), // (dst off, len) or Err
        Nothing,
    }
    let exp = match a {
        WBit(b) => {
            m.push(b);
            Exp::WriteOk
        }
        WOffLen(off, len) => {
            m.extend_from_slice(&patb[off as usize..(off + len) as usize]);
            Exp::WriteOk
        }
        WBits(n) => {
            m.extend_from_slice(&patb[..n as usize * 8]);
            Exp::WriteOk
        }
        WWithOffset(off) => {
            m.extend_from_slice(&patb[off as usize..16]);
            Exp::WriteOk
        }
        WWithLen(len) => {
            m.extend_from_slice(&patb[..len as usize]);
            Exp::WriteOk
        }
        WAt(p, b) => {
            m[p as usize] = b;
            Exp::WriteOk
        }
        WAtBits(p, n) => {
            for k in 0..n as usize * 8 {
                m[p as usize + k] = patb[k];
            }
            Exp::WriteOk
        }
        WAtOffLen(p, off, len) => {
            for k in 0..len as usize {
                m[p as usize + k] = patb[off as usize + k];
            }
            Exp::WriteOk
        }
        WFail | WFailOffset | WFailLong(_) => Exp::WriteErr,
        RBit => {
            if r < w {
                exp_r = r + 1;
                Exp::ReadBit(Some(model[r]))
            } else {
                Exp::ReadBit(None)
            }
        }
        RAt(p) => Exp::ReadBit(Some(model[p as usize])),
        RLen(n) => Exp::ReadInto(if r + n as usize <= w { exp_r = r + n as usize; Some((0, n as usize)) } else { None }),
        ROffLen(off, n) => Exp::ReadInto(if r + n as usize <= w { exp_r = r + n as usize; Some((off as usize, n as usize)) } else { None }),
        RBits(n) => Exp::ReadInto(if r + n as usize * 8 <= w { exp_r = r + n as usize * 8; Some((0, n as usize * 8)) } else { None }),
        RWithOffset(off) => {
            let n = 16 - off as usize;
            Exp::ReadInto(if r + n <= w { exp_r = r + n; Some((off as usize, n)) } else { None })
        }
        RReset => {
            exp_r = 0;
            Exp::Nothing
        }
        RDstShort => Exp::ReadInto(None),
    };
    let now: BbState = (bb.content().to_vec(), bb.bit_len(), {
        // read position is not exposed; recover it by probing is impossible -> use Debug output
        let d = format!("{bb:?}");
        d.rsplit("read_position: ").next().and_then(|s| s.trim_end_matches([' ', '}']).parse::<usize>().ok()).unwrap_or(usize::MAX)
    });
    let inv = |st: &BbState, m: &Vec<bool>| -> Option<(String, String, String)> {
        if st.1 != m.len() {
            return Some(("bit-len".into(), format!("bit_len={}", m.len()), format!("bit_len={}", st.1)));
        }
        if st.0.len() != (m.len() + 7) / 8 {
            return Some(("byte-len-not-ceil".into(), format!("byte_len={}", (m.len() + 7) / 8), format!("byte_len={} content={}", st.0.len(), hex(&st.0))));
        }
        if st.0 != pack(m) {
            return Some(("content".into(), format!("content={}", hex(&pack(m))), format!("content={}", hex(&st.0))));
        }
        None
    };
    match exp {
        Exp::WriteOk => {
            if let Err(e) = res {
                return StepOut::Fail("write-err".into(), "Ok".into(), format!("Err({e})"));
            }
            if let Some((k, e, o)) = inv(&now, &m) {
                return StepOut::Fail(format!("write.{k}"), e, o);
            }
            if now.2 != r {
                return StepOut::Fail("write-moved-read-pos".into(), format!("r={r}"), format!("r={}", now.2));
            }
        }
        Exp::WriteErr => {
            if res.is_ok() {
                return StepOut::Fail("write-ok-but-source-too-short".into(), "Err".into(), "Ok".into());
            }
            if let Some((k, e, o)) = inv(&now, &model) {
                return StepOut::Fail(format!("after-failed-write.{k}"), e, o);
            }
        }
        Exp::ReadBit(None) | Exp::ReadInto(None) => {
            if let Ok(v) = &res {
                return StepOut::Fail("read-ok-beyond-written-bits".into(), "Err(EndOfStream)".into(), format!("Ok({v:?}) dst={} r={}", hex(&dst3), now.2));
            }
            if let Some((k, e, o)) = inv(&now, &model) {
                return StepOut::Fail(format!("after-failed-read.{k}"), e, o);
            }
            // a failed read consumes nothing
            if now.2 != r {
                return StepOut::Fail("read-cursor-moved-on-err".into(), format!("r={r}"), format!("r={}", now.2));
            }
            return StepOut::Next(now);
        }
        Exp::ReadBit(Some(b)) => {
            if res != Ok(Some(b)) {
                return StepOut::Fail("read-bit-value".into(), format!("Ok({b})"), format!("{res:?}"));
            }
        }
        Exp::ReadInto(Some((off, n))) => {
            if let Err(e) = &res {
                return StepOut::Fail("read-err".into(), "Ok".into(), format!("Err({e})"));
            }
            let want = copy(&model, r, &unpack(&[0xAA; 3]), off, n).unwrap();
            let take = match a { RBits(k) => k as usize * 8, RWithOffset(_) => 16, _ => 24 };
            if unpack(&dst3)[..take] != want[..take] {
                return StepOut::Fail("read-data".into(), format!("dst={}", hex(&pack(&want[..take]))), format!("dst={}", hex(&dst3[..take / 8])));
            }
        }
        Exp::Nothing => {}
    }
    if matches!(a, RBit | RAt(_) | RLen(_) | ROffLen(..) | RBits(_) | RWithOffset(_) | RReset | RDstShort) {
        if let Some((k, e, o)) = inv(&now, &model) {
            return StepOut::Fail(format!("read-changed-buffer.{k}"), e, o);
        }
        if now.2 != exp_r {
            return StepOut::Fail("read-cursor".into(), format!("r={exp_r}"), format!("r={}", now.2));
        }
    }
    StepOut::Next(now)
}

fn act_class(a: BbAct) -> &'static str {
    use BbAct::*;
    match a {
        WBit(_) => "write_bit",
        WOffLen(..) => "write_bits_with_offset_len",
        WBits(_) => "write_bits",
        WWithOffset(_) => "write_bits_with_offset",
        WWithLen(_) => "write_bits_with_len",
        WAt(..) => "with_write_position_at",
        WAtBits(..) => "with_write_position_at.write_bits",
        WAtOffLen(..) => "with_write_position_at.write_bits_with_offset_len",
        WFailLong(_) => "failing_long_unaligned_write",
        WFail => "failing_write_len",
        WFailOffset => "failing_write_offset",
        RBit => "read_bit",
        RLen(_) => "read_bits_with_len",
        ROffLen(..) => "read_bits_with_offset_len",
        RBits(_) => "read_bits",
        RWithOffset(_) => "read_bits_with_offset",
        RReset => "reset_read_position",
        RAt(_) => "with_read_position_at",
        RDstShort => "read_into_short_destination",
    }
}

struct BfsResult {
    states: u64,
    transitions: u64,
    max_depth: usize,
    leaf_evals: u64,
    failures: BTreeMap<String, (u64, Failure)>,
    samples: Vec<Value>,
    outcomes: usize,
}

fn bb_inits() -> Vec<BbState> {
    vec![(vec![], 0, 0), (vec![0xA5, 0xC0], 10, 3)]
}

fn part_b(depth: usize, full: bool) -> BfsResult {
    let alphabet = bb_alphabet(full);
    let mut seen: HashSet<BbState> = HashSet::new();
    let mut frontier: Vec<(BbState, Vec<u8>, u8)> = vec![]; // state, path (action indices), init index
    for (i, s) in bb_inits().into_iter().enumerate() {
        seen.insert(s.clone());
        frontier.push((s, vec![], i as u8));
    }
    let mut res = BfsResult { states: seen.len() as u64, transitions: 0, max_depth: 0, leaf_evals: 0, failures: BTreeMap::new(), samples: vec![], outcomes: 0 };
    let mut outcome_kinds: BTreeSet<String> = BTreeSet::new();
    for d in 1..=depth {
        let last = d == depth;
        let expanded: Vec<(Vec<(BbState, Vec<u8>, u8)>, u64, Vec<(String, Failure)>, BTreeSet<String>)> = frontier
            .par_iter()
            .map(|(st, path, init)| {
                let mut next = vec![];
                let mut trans = 0u64;
                let mut fails = vec![];
                let mut kinds = BTreeSet::new();
                for (ai, a) in alphabet.iter().enumerate() {
                    match bb_step(st, *a) {
                        StepOut::Disabled => {}
                        StepOut::Next(n) => {
                            trans += 1;
                            kinds.insert(format!("{}:{}", act_class(*a), if n == *st { "same" } else { "changed" }));
                            if !last {
                                let mut p = path.clone();
                                p.push(ai as u8);
                                next.push((n, p, *init));
                            }
                        }
                        StepOut::Fail(kind, expected, observed) => {
                            trans += 1;
                            let mut p = path.clone();
                            p.push(ai as u8);
                            let case = json!({"kind":"bitbuffer-history","full_alphabet":full,"init":init,"actions":p,
                                "actions_readable": p.iter().map(|i| format!("{:?}", alphabet[*i as usize])).collect::<Vec<_>>(),
                                "state_before": {"content":hex(&st.0),"bit_len":st.1,"read_pos":st.2}});
                            fails.push((format!("bitbuffer.{}.{}", act_class(*a), kind), Failure { class: format!("bitbuffer.{}.{}", act_class(*a), kind), case, expected, observed }));
                        }
                    }
                }
                (next, trans, fails, kinds)
            })
            .collect();
        let mut next_frontier = vec![];
        for (next, trans, fails, kinds) in expanded {
            res.transitions += trans;
            outcome_kinds.extend(kinds);
            for (c, f) in fails {
                let e = res.failures.entry(c).or_insert((0, f));
                e.0 += 1;
            }
            for (n, p, i) in next {
                if seen.insert(n.clone()) {
                    if res.samples.len() < 3 && p.len() >= 3.min(depth.saturating_sub(1)) {
                        res.samples.push(json!({"init": i, "ops": p.iter().map(|x| format!("{:?}", alphabet[*x as usize])).collect::<Vec<_>>(), "state": {"content": hex(&n.0), "bit_len": n.1, "read_pos": n.2}}));
                    }
                    next_frontier.push((n, p, i));
                }
            }
        }
        if last {
            res.leaf_evals = res.transitions;
        }
        res.max_depth = d;
        frontier = next_frontier;
        res.states = seen.len() as u64;
        if frontier.is_empty() && !last {
            break;
        }
    }
    res.outcomes = outcome_kinds.len();
    res
}

// ---------------------------------------------------------------------------------------------
// Part C: Bits (read view) histories, explored to a fixpoint
// ---------------------------------------------------------------------------------------------

#[derive(Clone, Copy, Debug)]
enum BiAct {
    RBit,
    RLen(u8),
    RBits(u8),
    RWithOffset(u8),
    ROffLen(u8, u8),
    SetPos(u8),
    SetLen(u8),
    RAt(u8),
    RDstShort,
}

fn bi_alphabet() -> Vec<BiAct> {
    use BiAct::*;
    let mut v = vec![RBit, RLen(1), RLen(8), RLen(17), RLen(0), RBits(1), RBits(2), RWithOffset(3), ROffLen(3, 9), ROffLen(1, 20)];
    for p in [0u8, 1, 7, 8, 11, 19, 23, 24, 25, 40] {
        v.push(SetPos(p));
        v.push(SetLen(p));
    }
    v.extend([RAt(0), RAt(5), RAt(30), RDstShort]);
    v
}

const BITS_SLICE: [u8; 3] = [0xB7, 0x3C, 0xE1];

/// state = (pos, len); returns next or failure
fn bi_step(st: (usize, usize), a: BiAct) -> Result<(usize, usize), (String, String, String)> {
    use BiAct::*;
    let (pos, len) = st;
    let all = unpack(&BITS_SLICE);
    let mut dst3 = [0xAAu8; 3];
    let r = catch(|| {
        // set_len() does not move the position, so pos > len is a reachable (benign) state:
        // reconstruct by positioning first and narrowing afterwards
        let mut b = Bits::from(&BITS_SLICE[..]);
        b.set_pos(pos);
        b.set_len(len);
        assert!(b.pos() == pos && b.len() == len, "harness: cannot reconstruct state");
        let e = |e: asn1rs::protocol::per::Error| vcore::subject::per_err_kind(&e);
        let out: Result<Option<bool>, String> = match a {
            RBit => b.read_bit().map(Some).map_err(e),
            RLen(n) => b.read_bits_with_len(&mut dst3, n as usize).map(|_| None).map_err(e),
            RBits(n) => b.read_bits(&mut dst3[..n as usize]).map(|_| None).map_err(e),
            RWithOffset(o) => b.read_bits_with_offset(&mut dst3[..2], o as usize).map(|_| None).map_err(e),
            ROffLen(o, n) => b.read_bits_with_offset_len(&mut dst3, o as usize, n as usize).map(|_| None).map_err(e),
            SetPos(p) => {
                let got = b.set_pos(p as usize);
                if got != (p as usize).min(len) { Err(format!("set_pos returned {got}")) } else { Ok(None) }
            }
            SetLen(l) => {
                let got = b.set_len(l as usize);
                if got != (l as usize).min(24) { Err(format!("set_len returned {got}")) } else { Ok(None) }
            }
            RAt(p) => b.with_read_position_at(p as usize, |x| x.read_bit()).map(Some).map_err(e),
            RDstShort => b.read_bits_with_offset_len(&mut dst3[..1], 0, 9).map(|_| None).map_err(e),
        };
        let rem = b.remaining();
        (out, b.pos(), b.len(), rem)
    });
    let (out, npos, nlen, rem) = match r {
        Err(p) => return Err(("panic".into(), "Ok or Err".into(), format!("panic: {p}"))),
        Ok(x) => x,
    };
    if rem != nlen.saturating_sub(npos) {
        return Err(("remaining".into(), format!("{}", nlen.saturating_sub(npos)), format!("{rem}")));
    }
    let read_into = |off: usize, n: usize, take: usize| -> Result<(usize, usize), (String, String, String)> {
        if pos + n <= len {
            if let Err(e) = &out {
                return Err(("read-err".into(), "Ok".into(), format!("Err({e})")));
            }
            let want = copy(&all, pos, &unpack(&[0xAA; 3]), off, n).unwrap();
            if unpack(&dst3)[..take] != want[..take] {
                return Err(("read-data".into(), hex(&pack(&want[..take])), hex(&dst3[..take / 8])));
            }
            if npos != pos + n || nlen != len {
                return Err(("read-cursor".into(), format!("pos={} len={len}", pos + n), format!("pos={npos} len={nlen}")));
            }
            Ok((npos, nlen))
        } else {
            // a zero-length read cannot over-read; with pos > len (after set_len below pos) the
            // statement does not say whether it is Ok or Err
            if out.is_ok() && n != 0 {
                return Err(("read-ok-beyond-visible-len".into(), "Err(EndOfStream)".into(), format!("Ok dst={} pos={npos}", hex(&dst3))));
            }
            if out.is_err() && (npos != pos || nlen != len) {
                return Err(("read-cursor-moved-on-err".into(), format!("pos={pos} len={len}"), format!("pos={npos} len={nlen}")));
            }
            Ok((npos, nlen))
        }
    };
    match a {
        RBit => {
            if pos < len {
                if out != Ok(Some(all[pos])) || npos != pos + 1 {
                    return Err(("read-bit".into(), format!("Ok({}) pos={}", all[pos], pos + 1), format!("{out:?} pos={npos}")));
                }
            } else if out.is_ok() {
                return Err(("read-ok-beyond-visible-len".into(), "Err".into(), format!("{out:?}")));
            }
            Ok((npos, nlen))
        }
        RAt(p) => {
            // set_pos clamps to len, then read_bit; position restored
            let p = (p as usize).min(len);
            if p < len {
                if out != Ok(Some(all[p])) {
                    return Err(("read-at".into(), format!("Ok({})", all[p]), format!("{out:?}")));
                }
            } else if out.is_ok() {
                return Err(("read-ok-beyond-visible-len".into(), "Err".into(), format!("{out:?}")));
            }
            // restoring goes through set_pos, which is documented to clamp to len
            if npos != pos.min(len) {
                return Err(("read-at-restore".into(), format!("pos={}", pos.min(len)), format!("pos={npos}")));
            }
            Ok((npos, nlen))
        }
        RLen(n) => read_into(0, n as usize, 24),
        RBits(n) => read_into(0, n as usize * 8, n as usize * 8),
        RWithOffset(o) => read_into(o as usize, 16 - o as usize, 16),
        ROffLen(o, n) => read_into(o as usize, n as usize, 24),
        RDstShort => {
            if out.is_ok() {
                return Err(("read-ok-into-short-destination".into(), "Err".into(), "Ok".into()));
            }
            if npos != pos || nlen != len {
                return Err(("read-cursor-moved-on-err".into(), format!("pos={pos} len={len}"), format!("pos={npos} len={nlen}")));
            }
            Ok((npos, nlen))
        }
        SetPos(p) => {
            if let Err(e) = out {
                return Err(("set-pos".into(), "clamped position".into(), e));
            }
            if npos != (p as usize).min(len) || nlen != len {
                return Err(("set-pos".into(), format!("pos={}", (p as usize).min(len)), format!("pos={npos} len={nlen}")));
            }
            Ok((npos, nlen))
        }
        SetLen(l) => {
            if let Err(e) = out {
                return Err(("set-len".into(), "clamped len".into(), e));
            }
            if nlen != (l as usize).min(24) {
                return Err(("set-len".into(), format!("len={}", (l as usize).min(24)), format!("len={nlen}")));
            }
            Ok((npos, nlen))
        }
    }
}

fn bi_class(a: BiAct) -> &'static str {
    use BiAct::*;
    match a {
        RBit => "read_bit",
        RLen(_) => "read_bits_with_len",
        RBits(_) => "read_bits",
        RWithOffset(_) => "read_bits_with_offset",
        ROffLen(..) => "read_bits_with_offset_len",
        SetPos(_) => "set_pos",
        SetLen(_) => "set_len",
        RAt(_) => "with_read_position_at",
        RDstShort => "read_into_short_destination",
    }
}

fn part_c() -> BfsResult {
    let alphabet = bi_alphabet();
    let mut seen: BTreeSet<(usize, usize)> = BTreeSet::new();
    let mut frontier: Vec<((usize, usize), Vec<u8>)> = vec![((0, 24), vec![]), ((0, 19), vec![])];
    for (s, _) in &frontier {
        seen.insert(*s);
    }
    let mut res = BfsResult { states: 0, transitions: 0, max_depth: 0, leaf_evals: 0, failures: BTreeMap::new(), samples: vec![], outcomes: 0 };
    let mut depth = 0;
    while !frontier.is_empty() {
        depth += 1;
        let mut next = vec![];
        for (st, path) in &frontier {
            for (ai, a) in alphabet.iter().enumerate() {
                res.transitions += 1;
                let mut p = path.clone();
                p.push(ai as u8);
                match bi_step(*st, *a) {
                    Ok(n) => {
                        if seen.insert(n) {
                            if res.samples.len() < 3 && p.len() >= 2 {
                                res.samples.push(json!({"ops": p.iter().map(|x| format!("{:?}", alphabet[*x as usize])).collect::<Vec<_>>(), "state": {"pos": n.0, "len": n.1}}));
                            }
                            next.push((n, p));
                        }
                    }
                    Err((kind, expected, observed)) => {
                        let class = format!("bits.{}.{}", bi_class(*a), kind);
                        let case = json!({"kind":"bits-history","actions":p,"actions_readable": p.iter().map(|i| format!("{:?}", alphabet[*i as usize])).collect::<Vec<_>>(),"state_before":{"pos":st.0,"len":st.1}});
                        let e = res.failures.entry(class.clone()).or_insert((0, Failure { class, case, expected, observed }));
                        e.0 += 1;
                    }
                }
            }
        }
        frontier = next;
        res.max_depth = depth;
    }
    res.states = seen.len() as u64;
    res.outcomes = seen.len();
    res
}

// ---------------------------------------------------------------------------------------------

fn replay(case: &Value) -> ! {
    let run = || -> String {
        match case["kind"].as_str().unwrap_or("") {
            "slice" => {
                let c = SliceCase::from_json(case);
                let o = run_slice(&c);
                let f = check_slice(&c);
                format!("result={:?} dst={} cursor={} verdict={}", o.result, hex(&o.dst), o.cursor, f.map(|f| format!("FAIL {} expected[{}] observed[{}]", f.class, f.expected, f.observed)).unwrap_or("ok".into()))
            }
            "slice-bit" => {
                let mut v = vec![];
                let mut e = 0;
                check_single_bits(unhex(case["buf"].as_str().unwrap()).len(), &mut v, &mut e);
                let want_pos = case["pos"].as_u64().unwrap();
                let hits: Vec<String> = v.iter().filter(|f| f.case["pos"].as_u64() == Some(want_pos) && f.case["buf"] == case["buf"] && f.case["write"] == case["write"]).map(|f| format!("FAIL {} expected[{}] observed[{}]", f.class, f.expected, f.observed)).collect();
                if hits.is_empty() { "ok".into() } else { hits.join("; ") }
            }
            "bitbuffer-history" => {
                let alphabet = bb_alphabet(case["full_alphabet"].as_bool().unwrap_or(true));
                let mut st = bb_inits()[case["init"].as_u64().unwrap() as usize].clone();
                let mut log = vec![];
                for a in case["actions"].as_array().unwrap() {
                    let act = alphabet[a.as_u64().unwrap() as usize];
                    match bb_step(&st, act) {
                        StepOut::Next(n) => {
                            log.push(format!("{act:?} -> content={} bit_len={} r={}", hex(&n.0), n.1, n.2));
                            st = n;
                        }
                        StepOut::Disabled => log.push(format!("{act:?} -> disabled")),
                        StepOut::Fail(k, e, o) => {
                            log.push(format!("{act:?} -> FAIL {k} expected[{e}] observed[{o}]"));
                            break;
                        }
                    }
                }
                log.join("\n")
            }
            "bits-history" => {
                let alphabet = bi_alphabet();
                let acts: Vec<usize> = case["actions"].as_array().unwrap().iter().map(|a| a.as_u64().unwrap() as usize).collect();
                // histories start from (0,24) or (0,19); try both deterministically, report the one recorded
                let mut log = vec![];
                let before = (case["state_before"]["pos"].as_u64().unwrap() as usize, case["state_before"]["len"].as_u64().unwrap() as usize);
                let last = alphabet[*acts.last().unwrap()];
                match bi_step(before, last) {
                    Ok(n) => log.push(format!("from {before:?} {last:?} -> {n:?} ok")),
                    Err((k, e, o)) => log.push(format!("from {before:?} {last:?} -> FAIL {k} expected[{e}] observed[{o}]")),
                }
                log.join("\n")
            }
            k => format!("unknown case kind {k}"),
        }
    };
    let a = run();
    let b = run();
    if a != b {
        machinery_error("replay is not deterministic");
    }
    println!("{a}");
    std::process::exit(if a.contains("FAIL") { 1 } else { 0 })
}

fn main() {
    let args = parse_args();
    install_quiet_panic_hook();
    if let Some(p) = &args.replay {
        replay(&load_replay(p));
    }
    if vcore::shard::my_shard().is_some() {
        part_a(args.tier);
        unreachable!();
    }
    let mut report = Report::new(&args, "model_checking");
    let a = part_a(args.tier);
    let (bdepth_full, bdepth_red) = if args.tier.is_thorough() { (5, 7) } else { (3, 5) };
    let b1 = part_b(bdepth_full, true);
    let b2 = part_b(bdepth_red, false);
    let c = part_c();
    if b1.outcomes < 2 || c.states < 2 {
        machinery_error("vacuous exploration: fewer than two distinct outcomes");
    }
    for (k, (n, f)) in a.failures.into_iter().chain(b1.failures).chain(b2.failures).chain(c.failures) {
        report.merge(k, n, f);
    }
    let mut cov = Map::new();
    cov.insert("exhaustive".into(), json!(true));
    cov.insert("states".into(), json!(b1.states + b2.states + c.states));
    cov.insert("transitions".into(), json!(b1.transitions + b2.transitions + c.transitions));
    cov.insert("traces_validated_against_impl".into(), json!(b1.transitions + b2.transitions + c.transitions));
    cov.insert("evaluations".into(), json!(a.evals));
    cov.insert("distinct_nontrivial".into(), json!(a.nontrivial));
    cov.insert("rule".into(), json!("Part A: every (direction, entry point, src len, src pattern, src bit offset, dst len, dst fill, dst bit position, len) within the byte bound, each run once on the real slice-tuple impl; non-trivial = admissible copy of >=1 bit. Parts B/C: level-synchronous BFS, every transition is one real call on a BitBuffer/Bits reconstructed from the state and compared with the Vec<bool> model; state key = full observable state (content, bit_len, read position | pos, len), exact dedup."));
    cov.insert("bounds".into(), json!({
        "slice_max_bytes": if args.tier.is_thorough() {5} else {4},
        "bitbuffer_full_alphabet": {"actions": bb_alphabet(true).len(), "depth": bdepth_full, "states": b1.states, "transitions": b1.transitions, "distinct_outcome_kinds": b1.outcomes},
        "bitbuffer_reduced_alphabet": {"actions": bb_alphabet(false).len(), "depth": bdepth_red, "states": b2.states, "transitions": b2.transitions, "distinct_outcome_kinds": b2.outcomes},
        "bits_view": {"actions": bi_alphabet().len(), "depth_to_fixpoint": c.max_depth, "states": c.states, "transitions": c.transitions},
        "note": "states of the last BFS level are checked (every transition evaluated) but not deduplicated/stored"
    }));
    let mut samples = a.samples;
    samples.extend(b1.samples);
    samples.extend(c.samples);
    cov.insert("samples".into(), Value::Array(samples));
    report.finish(cov, vec![
        "Vec<bool> model (vcore::refbits) is the trusted reference".into(),
        "BitBuffer read position is observed through the Debug impl (no accessor exists)".into(),
        "on Err: 'Err, no panic', cursor unchanged (a failed call consumes nothing) and the growth invariant are checked; the destination content after Err is not constrained".into(),
    ])
}

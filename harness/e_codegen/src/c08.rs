//! C08: (1) to_rust(parse_attr(generate(to_rust(M)))) == to_rust(M) per definition;
//!      (2) constants in expand() == constraints of the abstract module.

use crate::c07;
use asn1rs_model::generate::Generator;
use asn1rs_model::parse::Tokenizer;
use asn1rs_model::Model;
use quote::ToTokens;
use rayon::prelude::*;
use serde_json::{json, Map, Value as J};
use std::collections::BTreeMap;
use vcore::report::*;
use vcore::schema::*;

pub struct Piece {
    pub ident: String,
    /// Debug of the re-parsed definition converted to the Rust model
    pub reparsed: String,
    /// impl target ident -> (const name -> value text without spaces)
    pub consts: BTreeMap<String, BTreeMap<String, String>>,
}

/// A DEFAULT that names an enumeration item keeps the ASN.1 spelling of the item in the generator's
/// model and has the Rust spelling after the round trip through the generated code; both denote the
/// same variant, so the item name of the generator's model is put into its Rust spelling (once: the
/// mapping is not idempotent, `a-b` -> `AB` -> `Ab`) and the re-parsed one is taken as it is.
fn default_items_in_rust_spelling(s: &str) -> String {
    let mut out = String::new();
    let mut rest = s;
    while let Some(p) = rest.find("EnumeratedVariant(\"") {
        let head = &rest[..p + 19];
        out.push_str(head);
        let after = &rest[p + 19..];
        // after = Type", "item"))...
        if let Some(q) = after.find("\", \"") {
            out.push_str(&after[..q + 4]);
            let tail = &after[q + 4..];
            if let Some(e) = tail.find('"') {
                out.push_str(&asn1rs_model::rust::rust_variant_name(&tail[..e]));
                rest = &tail[e..];
                continue;
            }
        }
        rest = after;
    }
    out.push_str(rest);
    out
}

/// `T ::= Other`: the generator's model leaves the definition's own tag empty (= the tag of the
/// referenced type, which the reference `Complex("Other", Some(tag))` already carries), the attribute
/// language can only write `complex(Other, tag(..))` and the parser copies that tag to the definition.
/// Both mean the same tag; compared is the EFFECTIVE tag (own tag, else the reference's), so a wrong
/// tag on either side still differs.
fn effective_tuple_tag(s: &str) -> String {
    const HEAD: &str = "TupleStruct { type: Complex(";
    if let Some(p) = s.find(HEAD) {
        let after = &s[p + HEAD.len()..];
        // "Other", Some(Universal(1))), tag: None, ...
        if let Some(c) = after.find("\", ") {
            let rest = &after[c + 3..];
            if let Some(e) = rest.find("), tag: None") {
                let reftag = &rest[..e];
                if reftag.starts_with("Some(") {
                    let cut = p + HEAD.len() + c + 3 + e;
                    return format!("{}), tag: {}{}", &s[..cut], reftag, &s[cut + "), tag: None".len()..]);
                }
            }
        }
    }
    s.to_string()
}

/// the recorded special forms present in a module (selectors of known findings)
pub fn features(m: &Module) -> String {
    fn walk(t: &Ty, out: &mut std::collections::BTreeSet<String>) {
        match t {
            Ty::Int { range: Some(r), .. } => {
                let c = format!("{}{}{}", if r.lo == Bound::Min { "MIN" } else if r.lb() == Some(0) { "zero" } else { "lit" }, if r.hi == Bound::Max { "-MAX" } else if r.ub() == Some(i64::MAX) { "-i64max" } else { "-lit" }, if r.ext { "-ext" } else { "" });
                if c != "lit-lit" && c != "zero-lit" && c != "lit-lit-ext" && c != "zero-lit-ext" {
                    out.insert(format!("integer-{c}"));
                }
            }
            Ty::Seq { comps, ext_after, .. } => {
                if *ext_after == Some(0) {
                    out.insert("marker-before-first".into());
                }
                for c in comps {
                    walk(&c.ty, out);
                }
            }
            Ty::SeqOf { inner, .. } => walk(inner, out),
            Ty::Choice { alts, .. } => {
                for a in alts {
                    walk(&a.ty, out);
                }
            }
            _ => {}
        }
    }
    let mut s = std::collections::BTreeSet::new();
    for d in &m.defs {
        walk(&d.ty, &mut s);
    }
    s.into_iter().collect::<Vec<_>>().join("+")
}

/// generate -> split every item's #[asn(..)] attribute -> parse_asn_definition -> expand
pub fn pipeline(text: &str) -> Result<(Vec<String>, Vec<Piece>), String> {
    let model = Model::try_from(Tokenizer.parse(text)).map_err(|e| format!("parse: {e:?}"))?.try_resolve().map_err(|e| format!("resolve: {e:?}"))?;
    let rust = model.to_rust();
    let original: Vec<String> = rust.definitions.iter().map(|d| format!("{d:?}")).collect();
    let code: String = asn1rs_model::generate::rust::RustCodeGenerator::from(rust).to_string().map_err(|_| "generator error".to_string())?.into_iter().map(|x| x.1).collect::<Vec<_>>().join("\n");
    let file = syn::parse_file(&code).map_err(|e| format!("generated code does not parse: {e}"))?;
    let mut pieces = vec![];
    for item in file.items {
        let (attrs, ident) = match &item {
            syn::Item::Struct(s) => (s.attrs.clone(), s.ident.to_string()),
            syn::Item::Enum(e) => (e.attrs.clone(), e.ident.to_string()),
            _ => continue,
        };
        let attr = match attrs.iter().find(|a| a.path().is_ident("asn")) {
            Some(a) => a.clone(),
            None => continue,
        };
        let mut item2 = item.clone();
        match &mut item2 {
            syn::Item::Struct(s) => s.attrs.retain(|a| !a.path().is_ident("asn")),
            syn::Item::Enum(e) => e.attrs.retain(|a| !a.path().is_ident("asn")),
            _ => {}
        }
        let attr_tokens = match &attr.meta {
            syn::Meta::List(l) => l.tokens.clone(),
            _ => return Err("unexpected attribute form".into()),
        };
        let (def, _) = asn1rs_model::proc_macro::parse_asn_definition(attr_tokens, item2.to_token_stream()).map_err(|e| format!("attribute of {ident} is not re-parsed: {e}"))?;
        let def = def.ok_or_else(|| format!("attribute of {ident} gives no definition"))?;
        // the macro's own conversion (expand) goes through to_rust_keep_names
        let mut m: Model<asn1rs_model::proc_macro::AsnModelType> = Model { name: "__proc_macro".to_string(), ..Default::default() };
        m.definitions.push(def.clone());
        let reparsed = m.to_rust_keep_names().definitions.iter().map(|d| format!("{d:?}")).collect::<Vec<_>>().join(" ");
        let out: String = asn1rs_model::proc_macro::expand(Some(def)).iter().map(|t| t.to_string()).collect::<Vec<_>>().join(" ");
        let mut consts: BTreeMap<String, BTreeMap<String, String>> = BTreeMap::new();
        for part in out.split("impl ").skip(1) {
            if !part.contains("const ") {
                continue;
            }
            let head = part.split('{').next().unwrap_or("");
            let target = head.rsplit(" for ").next().unwrap_or("").trim().to_string();
            let tr = head.split(" for ").next().unwrap_or("").replace(' ', "");
            let tr = tr.rsplit("descriptor::").next().unwrap_or("").split("::").next().unwrap_or("").to_string();
            let e = consts.entry(target).or_default();
            for c in part.split("const ").skip(1) {
                let c = c.split(';').next().unwrap_or("");
                if let Some((name_ty, val)) = c.split_once('=') {
                    let name = name_ty.split(':').next().unwrap_or("").trim();
                    // keep the trait kind with the constant so that MIN of `numbers` and of a size constraint stay apart
                    e.insert(format!("{tr}.{name}"), val.replace(' ', ""));
                }
            }
        }
        pieces.push(Piece { ident, reparsed, consts });
    }
    Ok((original, pieces))
}

fn camel(field: &str) -> String {
    let mut out = String::new();
    let mut up = true;
    for ch in field.chars() {
        if ch == '_' || ch == '-' {
            up = true;
        } else if up {
            out.push(ch.to_ascii_uppercase());
            up = false;
        } else {
            out.push(ch);
        }
    }
    out
}

fn opt(v: Option<i128>) -> String {
    v.map_or("None".to_string(), |x| format!("Some({x})"))
}

/// expected (impl target, trait.const, value, context label) triples for the definition `def`
pub fn expected_consts(m: &Module, def: &Def) -> Vec<(String, String, String, String)> {
    let t = &def.name;
    let mut out = vec![];
    let mut leaf = |target: String, ty: &Ty, ctx: &str, out: &mut Vec<(String, String, String, String)>| {
        match m.resolve(ty) {
            Ty::Int { range, .. } if !matches!(ty, Ty::Ref(_)) => {
                let (lb, ub, ext) = match range {
                    None => (None, None, false),
                    Some(r) => (r.lb().map(|x| x as i128), r.ub().map(|x| x as i128), r.ext),
                };
                let cls = match range {
                    None => "unconstrained".to_string(),
                    Some(r) => format!("{}{}{}", if r.lo == Bound::Min { "MIN" } else if r.lb() == Some(0) { "zero" } else { "lit" }, if r.hi == Bound::Max { "-MAX" } else if r.ub() == Some(i64::MAX) { "-i64max" } else { "-lit" }, if r.ext { "-ext" } else { "" }),
                };
                out.push((target.clone(), "numbers.MIN".into(), opt(lb), format!("{ctx}.integer-{cls}")));
                out.push((target.clone(), "numbers.MAX".into(), opt(ub), format!("{ctx}.integer-{cls}")));
                out.push((target.clone(), "numbers.EXTENSIBLE".into(), ext.to_string(), format!("{ctx}.integer-{cls}")));
            }
            Ty::BitStr { size, .. } | Ty::OctStr { size, .. } | Ty::Str { size, .. } | Ty::SeqOf { size, .. } if !matches!(ty, Ty::Ref(_)) => {
                let tr = match m.resolve(ty) {
                    Ty::BitStr { .. } => "bitstring",
                    Ty::OctStr { .. } => "octetstring",
                    Ty::Str { cs, .. } => match cs {
                        Charset::Utf8 => "utf8string",
                        Charset::Ia5 => "ia5string",
                        Charset::Numeric => "numericstring",
                        Charset::Printable => "printablestring",
                        Charset::Visible => "visiblestring",
                    },
                    Ty::SeqOf { set: false, .. } => "sequenceof",
                    _ => "setof",
                };
                if *size != Size::Any {
                    out.push((target.clone(), format!("{tr}.MIN"), opt(Some(size.lb() as i128)), format!("{ctx}.size")));
                    // an unbounded upper size is written as i64::MAX by the generator: same meaning for a size
                    out.push((target.clone(), format!("{tr}.MAX"), opt(Some(size.ub().map_or(i64::MAX as i128, |u| u as i128))), format!("{ctx}.size")));
                    out.push((target.clone(), format!("{tr}.EXTENSIBLE"), size.ext().to_string(), format!("{ctx}.size")));
                }
            }
            _ => {}
        }
    };
    match &def.ty {
        Ty::Seq { set, comps, ext_after } => {
            let tr = if *set { "set" } else { "sequence" };
            let nroot = ext_after.unwrap_or(comps.len());
            let marker = match ext_after {
                None => "no-marker",
                Some(0) => "marker-before-first",
                Some(k) if *k == comps.len() => "marker-after-last",
                Some(_) => "marker-inside",
            };
            let opt_root = comps[..nroot].iter().filter(|c| c.presence != Presence::Mandatory).count();
            out.push((t.clone(), format!("{tr}.STD_OPTIONAL_FIELDS"), opt_root.to_string(), format!("{tr}.{marker}")));
            out.push((t.clone(), format!("{tr}.FIELD_COUNT"), comps.len().to_string(), format!("{tr}.{marker}")));
            out.push((t.clone(), format!("{tr}.EXTENDED_AFTER_FIELD"), match ext_after { None => "None".to_string(), Some(0) => "<no root component: not expressible>".to_string(), Some(k) => format!("Some({})", k - 1) }, format!("{tr}.{marker}")));
            for c in comps {
                let base = format!("___asn1rs_{t}Field{}", camel(&c.name));
                let target = match &c.presence {
                    Presence::Default(_) => format!("{base}ValueConstraint"),
                    _ => format!("{base}Constraint"),
                };
                leaf(target, &c.ty, "component", &mut out);
                if let Presence::Default(l) = &c.presence {
                    let v = match l {
                        Lit::Int(i) => Some(format!("&{i}")),
                        Lit::Bool(b) => Some(format!("&{b}")),
                        Lit::Str(s) if !s.contains(' ') => Some(format!("{s:?}")),
                        Lit::Enum(item) => match &c.ty {
                            Ty::Ref(r) => Some(format!("&{}::{}", r, camel(item))),
                            _ => None,
                        },
                        _ => None,
                    };
                    if let Some(v) = v {
                        out.push((format!("{base}Constraint"), "default.DEFAULT_VALUE".into(), v, "component.default-value".into()));
                    }
                }
                if let Ty::SeqOf { inner, .. } = &c.ty {
                    leaf(format!("{base}ValuesConstraint"), inner, "component.element", &mut out);
                }
            }
        }
        Ty::Choice { alts, ext_after } => {
            let nroot = ext_after.unwrap_or(alts.len());
            out.push((t.clone(), "choice.EXTENSIBLE".into(), ext_after.is_some().to_string(), "choice".into()));
            out.push((t.clone(), "choice.STD_VARIANT_COUNT".into(), nroot.to_string(), "choice".into()));
            out.push((t.clone(), "choice.VARIANT_COUNT".into(), alts.len().to_string(), "choice".into()));
            for a in alts {
                leaf(format!("___asn1rs_{t}Field{}Constraint", camel(&a.name)), &a.ty, "alternative", &mut out);
            }
        }
        Ty::Enum { root, ext } => {
            out.push((t.clone(), "enumerated.EXTENSIBLE".into(), ext.is_some().to_string(), "enumerated".into()));
            out.push((t.clone(), "enumerated.STD_VARIANT_COUNT".into(), root.len().to_string(), "enumerated".into()));
            out.push((t.clone(), "enumerated.VARIANT_COUNT".into(), (root.len() + ext.as_ref().map_or(0, |e| e.len())).to_string(), "enumerated".into()));
        }
        other => {
            leaf(format!("___asn1rs_{t}Field0Constraint"), other, "top-level", &mut out);
            if let Ty::SeqOf { inner, .. } = other {
                leaf(format!("___asn1rs_{t}Field0ValuesConstraint"), inner, "top-level.element", &mut out);
            }
        }
    }
    out
}

pub fn check_case(label: &str, module: Option<&Module>, text: &str) -> Vec<Failure> {
    let ctx = label.split('/').next().unwrap_or("").to_string();
    let case = || json!({"kind": "c08", "label": label, "asn": text});
    let mk = |kind: String, e: String, o: String| Failure { class: format!("c08.{kind}"), case: case(), expected: e, observed: o };
    let (original, pieces) = match catch(|| pipeline(text)) {
        Err(p) => {
            // a front-end panic on an accepted module is C09/C14 business unless it happens in the re-parse/expand step
            return vec![mk(format!("panic.{ctx}"), "pieces".into(), format!("panic: {p}"))];
        }
        Ok(Err(e)) => {
            if e.starts_with("parse:") || e.starts_with("resolve:") {
                return vec![]; // not an accepted module
            }
            return vec![mk(format!("pipeline-failed.{ctx}"), "pieces".into(), truncate(&e, 240))];
        }
        Ok(Ok(x)) => x,
    };
    let mut out = vec![];
    // (1) every definition of the original Rust model comes back unchanged
    if original.len() != pieces.len() {
        out.push(mk(format!("definition-count.{ctx}"), format!("{} definitions", original.len()), format!("{} items with #[asn]", pieces.len())));
    }
    for (o, p) in original.iter().zip(pieces.iter()) {
        let want = effective_tuple_tag(&default_items_in_rust_spelling(o));
        let mut got = effective_tuple_tag(&p.reparsed);
        if o.contains("DataEnum") {
            // the macro's derived tag of an untagged CHOICE is exempt: only the CHOICE's OWN tag (the last
            // tag field of the rendering), and only where the generator's model has none
            got = untagged_choice_own_tag(&want, &got);
        }
        if want != got {
            let kind = if o.contains("DataEnum") { "choice" } else if o.contains("Enum(") { "enumerated" } else if o.contains("TupleStruct") { "tuple-struct" } else { "struct" };
            // the recorded differences: an open upper bound of an extensible INTEGER comes back as i64::MAX, an
            // absent lower bound as 0. Each is undone exactly where the two renderings first differ; anything
            // that remains after that is a different violation and keeps the general class
            let (undone, used) = undo_recorded(&want, &got);
            let kind = if undone == want && !used.is_empty() { format!("quirk.{}", used.join("+")) } else { kind.to_string() };
            let d = want.chars().zip(got.chars()).position(|(a, b)| a != b).unwrap_or(0);
            let win = |s: &str| s.chars().skip(d.saturating_sub(60)).take(160).collect::<String>();
            out.push(mk(format!("reparsed-model-differs.{kind}"), format!("({ctx}) {}", win(&want)), win(&got)));
        }
    }
    // (2) constants of the expansion against the abstract module
    if let Some(m) = module {
        if let Some(def) = m.find("T") {
            let all: BTreeMap<String, BTreeMap<String, String>> = pieces.iter().flat_map(|p| p.consts.clone()).collect();
            for (target, name, want, cctx) in expected_consts(m, def) {
                // a constant that is not emitted has the descriptor trait's default value
                let default = if name.ends_with(".EXTENSIBLE") { Some("false") } else if name.ends_with(".MIN") || name.ends_with(".MAX") { Some("None") } else { None };
                let cls = cctx.rsplit('.').next().unwrap_or("").to_string();
                // the hidden name of an element / value constraint is no part of the property: either spelling
                let target = if all.contains_key(&target) {
                    target
                } else {
                    let alt = target.strip_suffix("ValuesConstraint").map(|b| format!("{b}_ValuesConstraint")).or_else(|| target.strip_suffix("ValueConstraint").map(|b| format!("{b}_ValueConstraint")));
                    match alt {
                        Some(a) if all.contains_key(&a) => a,
                        _ => target,
                    }
                };
                match all.get(&target).and_then(|c| c.get(&name)).map(|s| s.as_str()).or(if all.contains_key(&target) || default.is_some() { default } else { None }) {
                    None => out.push(mk(format!("const-missing.{name}.{cls}"), format!("{target}::{name} = {want}"), "no such constant in the expansion".into())),
                    Some(got) => {
                        let norm = |s: &str| s.replace("&", "").replace("i64", "").replace("u64", "");
                        if norm(got) != norm(&want) {
                            out.push(mk(format!("const.{name}.{cls}"), format!("{target}::{name} = {want} ({cctx})"), got.to_string()));
                        }
                    }
                }
            }
        }
    }
    out
}

const RECORDED: [(&str, &str, &str); 2] = [
    ("open-upper-bound-of-extensible-integer-as-i64max", "Some(9223372036854775807), true)", "None, true)"),
    ("absent-lower-bound-of-extensible-integer-as-0", "Range(Some(0), Some(", "Range(None, Some("),
];

/// rewrites `got` towards `want` with the recorded rewritings, each applied only at a place where the
/// two strings first differ; returns the result and the names of the rewritings used
fn undo_recorded(want: &str, got: &str) -> (String, Vec<&'static str>) {
    let mut cur = got.to_string();
    let mut used: Vec<&'static str> = vec![];
    for _ in 0..64 {
        if cur == want {
            break;
        }
        let d = want.bytes().zip(cur.bytes()).position(|(a, b)| a != b).unwrap_or(want.len().min(cur.len()));
        let mut progressed = false;
        for (name, from, to) in RECORDED {
            let lo = d.saturating_sub(from.len());
            for k in lo..=d.min(cur.len()) {
                if cur.is_char_boundary(k) && cur[k..].starts_with(from) && want.is_char_boundary(k) && want[k..].starts_with(to) {
                    cur = format!("{}{}{}", &cur[..k], to, &cur[k + from.len()..]);
                    if !used.contains(&name) {
                        used.push(name);
                    }
                    progressed = true;
                    break;
                }
            }
            if progressed {
                break;
            }
        }
        if !progressed {
            break;
        }
    }
    used.sort();
    (cur, used)
}

/// if the last `tag: ` field of `want` is `None`, the last tag field of `got` is replaced by `None`
fn untagged_choice_own_tag(want: &str, got: &str) -> String {
    let (Some(pw), Some(pg)) = (want.rfind("tag: "), got.rfind("tag: ")) else { return got.to_string() };
    if !want[pw + 5..].starts_with("None") || got[pg + 5..].starts_with("None") {
        return got.to_string();
    }
    let after = &got[pg + 5..];
    let mut depth = 0;
    let mut end = after.len();
    for (i, ch) in after.char_indices() {
        if ch == '(' {
            depth += 1;
        } else if ch == ')' {
            depth -= 1;
            if depth == 0 {
                end = i + 1;
                break;
            }
        }
    }
    format!("{}tag: None{}", &got[..pg], &after[end..])
}

/// inline ASN.1 modules of the repository's tests (mutation-free corpus)
pub fn repo_corpus() -> Vec<(String, String)> {
    let mut out = vec![];
    let dir = std::env::var("VERIF_SUBJECT_TESTS").unwrap_or_else(|_| "/repo/tests".into());
    let mut files: Vec<_> = std::fs::read_dir(&dir).map(|d| d.filter_map(|e| e.ok()).map(|e| e.path()).collect()).unwrap_or_default();
    files.sort();
    for f in files {
        if f.extension().map_or(true, |e| e != "rs") {
            continue;
        }
        let txt = std::fs::read_to_string(&f).unwrap_or_default();
        let mut rest = txt.as_str();
        let mut k = 0;
        while let Some(p) = rest.find("asn_to_rust!(") {
            let after = &rest[p + 13..];
            let (open, close) = if let Some(q) = after.find("r#\"").filter(|q| *q < 12) { (q + 3, "\"#") } else if let Some(q) = after.find("r\"").filter(|q| *q < 12) { (q + 2, "\"") } else { rest = after; continue };
            if let Some(end) = after[open..].find(close) {
                out.push((format!("repo-test/{}#{k}", f.file_name().unwrap().to_string_lossy()), after[open..open + end].to_string()));
                k += 1;
                rest = &after[open + end..];
            } else {
                rest = after;
            }
        }
    }
    out
}

pub fn run(args: &Args) -> ! {
    let mut report = Report::new(args, "translation_validation");
    let thorough = args.tier.is_thorough();
    let mut cases: Vec<(String, Option<Module>, String)> = c07::space(thorough).into_iter().map(|c| (c.label.clone(), Some(c.module.clone()), c.module.asn())).collect();
    // C03 shapes (constants of every SEQUENCE/SET shape without compiling)
    let n = if thorough { 6 } else { 4 };
    for set in [false, true] {
        for (name, ty) in vcore::zoo_def::shape_types(if set { n - 1 } else { n }, set) {
            let mut m = Module::new("Shapes");
            m.defs.push(Def { name: "T".into(), tag: None, ty });
            cases.push((format!("shape/{name}"), Some(m.clone()), m.asn()));
        }
    }
    // names that differ only in case or in a hyphen (distinct in ASN.1 and in Rust): as the item / alternative
    // the extension marker follows, and as the item a DEFAULT names
    for (si, set) in [["abc", "abC", "d"], ["ab", "a-b", "c"], ["fooBar", "foobar", "x"], ["type-a-b", "type-ab", "z"]].iter().enumerate() {
        let orders: [[usize; 3]; 6] = [[0, 1, 2], [0, 2, 1], [1, 0, 2], [1, 2, 0], [2, 0, 1], [2, 1, 0]];
        for (oi, o) in orders.iter().enumerate() {
            let names: Vec<String> = o.iter().map(|i| set[*i].to_string()).collect();
            for ext in [None, Some(1usize), Some(2), Some(3)] {
                let e = ext.map_or("none".to_string(), |k| k.to_string());
                let mut m = Module::new("Names");
                let (root, add) = names.split_at(ext.unwrap_or(3));
                m.defs.push(Def { name: "T".into(), tag: None, ty: Ty::Enum { root: root.iter().map(|n| (n.clone(), None)).collect(), ext: ext.map(|_| add.iter().map(|n| (n.clone(), None)).collect()) } });
                cases.push((format!("names/enumerated/{si}.{oi}.{e}"), Some(m.clone()), m.asn()));
                let mut m = Module::new("Names");
                m.defs.push(Def { name: "T".into(), tag: None, ty: Ty::Choice { alts: names.iter().map(|n| Alt::new(n, Ty::Bool)).collect(), ext_after: ext } });
                cases.push((format!("names/choice/{si}.{oi}.{e}"), Some(m.clone()), m.asn()));
            }
            for d in 0..3 {
                let mut m = Module::new("Names");
                m.defs.push(Def { name: "Kind".into(), tag: None, ty: Ty::Enum { root: names.iter().map(|n| (n.clone(), None)).collect(), ext: None } });
                m.defs.push(Def { name: "T".into(), tag: None, ty: Ty::seq(vec![Comp::new("kind", Ty::r("Kind")).default(Lit::Enum(names[d].clone())), Comp::new("z", Ty::Bool)]) });
                cases.push((format!("names/default-item/{si}.{oi}.{d}"), Some(m.clone()), m.asn()));
            }
        }
    }
    let corpus = repo_corpus();
    for (l, t) in &corpus {
        cases.push((l.clone(), None, t.clone()));
    }
    let res: Vec<Vec<Failure>> = cases.par_iter().map(|(l, m, t)| check_case(l, m.as_ref(), t)).collect();
    let mut agg: BTreeMap<String, (u64, Failure)> = BTreeMap::new();
    for f in res.into_iter().flatten() {
        agg.entry(f.class.clone()).or_insert((0, f)).0 += 1;
    }
    for (k, (n, f)) in agg {
        report.merge(k, n, f);
    }
    if corpus.len() < 20 {
        machinery_error("the repository test corpus was not found (expected >= 20 inline modules under /repo/tests)");
    }
    let mut cov = Map::new();
    cov.insert("exhaustive".into(), json!(true));
    cov.insert("programs".into(), json!(cases.len()));
    cov.insert("disagreements_checked".into(), json!(cases.len()));
    cov.insert("evaluations".into(), json!(cases.len()));
    cov.insert("distinct_nontrivial".into(), json!(cases.len()));
    cov.insert("corpus_modules_from_repo_tests".into(), json!(corpus.len()));
    cov.insert("rule".into(), json!("two translations validated against each other on every program: (1) generator -> attribute parser: for every definition of to_rust(M) the generated item's #[asn(..)] attribute and body are re-parsed by proc_macro::parse_asn_definition and converted back (to_rust_keep_names, exactly what expand does): the Rust model must be identical (the macro's derived tag of an untagged CHOICE exempt - its own tag only, variant tags are compared; the tag of `T ::= Other` compared as effective tag = own tag, else the tag carried by the reference); (2) expand() -> source constraints: the constants of the expansion (sequence/set: STD_OPTIONAL_FIELDS, FIELD_COUNT, EXTENDED_AFTER_FIELD; choice/enumerated: EXTENSIBLE, STD_VARIANT_COUNT, VARIANT_COUNT; per component/alternative/element: integer MIN/MAX/EXTENSIBLE, size MIN/MAX/EXTENSIBLE of the right string/list trait, DEFAULT_VALUE) are compared with values computed from the ABSTRACT module. Programs: the whole C07 space, every SEQUENCE/SET shape with <= 4 (6) components, and every inline module of the repository's tests (oracle 1 only)"));
    cov.insert("samples".into(), json!([cases[11].2, cases[cases.len() - 1].0]));
    report.finish(cov, vec!["expected constants come from the abstract module (vcore::schema), never from the subject's model".into(), "an unbounded SIZE upper bound written as i64::MAX is accepted as 'no upper bound' (no observable difference for sizes)".into()])
}

pub fn replay(case: &J) -> ! {
    let label = case["label"].as_str().unwrap_or("");
    let text = case["asn"].as_str().unwrap_or("");
    let module = c07::space(true).into_iter().find(|c| c.label == label).map(|c| c.module);
    let f = check_case(label, module.as_ref(), text);
    if f.is_empty() {
        println!("ok");
        std::process::exit(0)
    }
    for x in &f {
        println!("FAIL {} expected[{}] observed[{}]", x.class, x.expected, x.observed);
    }
    std::process::exit(1)
}

//! C09: every module the front end accepts must give Rust code that rustc accepts.
//!
//! Every case is one ASN.1 module. Cases the real front end accepts (parse + resolve, in process) are
//! written as `asn1rs::asn_to_rust!(r#"..."#);` - exactly what a user writes - one file per case into a
//! scratch workspace of 16 crates, and `cargo check` (real rustc, real proc macros) decides. Errors are
//! attributed to cases by the file of their primary span; failing cases are taken out and the check is
//! repeated until every remaining case compiles together (rustc stops at the first failing phase, so
//! one round does not show every failing case), so every case ends in exactly one of: rejected by the
//! front end, compiles, does not compile.

use crate::c07;
use crate::c08;
use asn1rs_model::parse::Tokenizer;
use asn1rs_model::Model;
use serde_json::{json, Map, Value as J};
use std::collections::{BTreeMap, BTreeSet};
use std::path::{Path, PathBuf};
use vcore::report::*;

pub use crate::pool::*;

fn default_and_value_cases(out: &mut Vec<Case>) {
    let mut p = |name: String, body: String| out.push(Case { label: format!("literal/{name}"), text: module(&body) });
    let ints: &[(&str, &str, &[&str])] = &[
        ("INTEGER", "un", &["0", "1", "-1", "255", "256", "-129", "65536", "4294967296", "9223372036854775807", "-9223372036854775808"]),
        ("INTEGER (0..7)", "u3", &["0", "7"]),
        ("INTEGER (-5..5)", "s5", &["-5", "0", "5"]),
        ("INTEGER (0..255)", "u8", &["0", "255"]),
        ("INTEGER (-128..127)", "i8", &["-128", "127"]),
        ("INTEGER (0..65535)", "u16", &["65535"]),
        ("INTEGER (-32768..32767)", "i16", &["-32768"]),
        ("INTEGER (0..4294967295)", "u32", &["4294967295"]),
        ("INTEGER (-2147483648..2147483647)", "i32", &["-2147483648"]),
        ("INTEGER (0..9223372036854775807)", "u63", &["9223372036854775807"]),
        ("INTEGER (-9223372036854775808..9223372036854775807)", "i64", &["-9223372036854775808", "9223372036854775807"]),
        ("INTEGER (0..7,...)", "x3", &["0", "7", "100"]),
        ("INTEGER (1..MAX)", "semi", &["1", "100000"]),
        ("INTEGER (MIN..5)", "min5", &["0", "5"]),
    ];
    for (ty, tn, vals) in ints {
        for v in *vals {
            p(format!("default/integer-{tn}/{v}"), format!("T ::= SEQUENCE {{ a {ty} DEFAULT {v} }}"));
            p(format!("value-reference/integer-{tn}/{v}"), format!("my-val {ty} ::= {v}\nT ::= SEQUENCE {{ a BOOLEAN }}"));
            p(format!("default-by-reference/integer-{tn}/{v}"), format!("my-val {ty} ::= {v}\nT ::= SEQUENCE {{ a {ty} DEFAULT my-val }}"));
        }
    }
    for v in ["TRUE", "FALSE"] {
        p(format!("default/boolean/{v}"), format!("T ::= SEQUENCE {{ a BOOLEAN DEFAULT {v} }}"));
        p(format!("value-reference/boolean/{v}"), format!("my-val BOOLEAN ::= {v}\nT ::= SEQUENCE {{ a BOOLEAN }}"));
        p(format!("default-by-reference/boolean/{v}"), format!("my-val BOOLEAN ::= {v}\nT ::= SEQUENCE {{ a BOOLEAN DEFAULT my-val }}"));
    }
    let strings: &[(&str, &str)] = &[("plain", "\"ab\""), ("empty", "\"\""), ("space", "\"a b\""), ("doubled-quote", "\"a\"\"b\""), ("backslash", "\"a\\b\""), ("backslash-n", "\"a\\nb\""), ("braces", "\"{a}\""), ("hash", "\"a#b\""), ("raw-end", "\"a\"#b\""), ("non-ascii", "\"\u{e4}\u{20ac}\""), ("apostrophe", "\"it's\""), ("trailing-backslash", "\"a\\\"")];
    for ty in ["UTF8String", "IA5String", "NumericString", "PrintableString", "VisibleString", "UTF8String (SIZE(0..20))"] {
        let tn = ty.split(' ').next().unwrap().to_lowercase() + if ty.contains("SIZE") { "-sized" } else { "" };
        for (vn, v) in strings {
            p(format!("default/{tn}/{vn}"), format!("T ::= SEQUENCE {{ a {ty} DEFAULT {v} }}"));
            p(format!("value-reference/{tn}/{vn}"), format!("my-val {ty} ::= {v}\nT ::= SEQUENCE {{ a BOOLEAN }}"));
            p(format!("default-by-reference/{tn}/{vn}"), format!("my-val {ty} ::= {v}\nT ::= SEQUENCE {{ a {ty} DEFAULT my-val }}"));
        }
    }
    let octs: &[(&str, &str)] = &[("hex", "'DEAD'H"), ("hex-empty", "''H"), ("hex-odd", "'ABC'H"), ("hex-lower", "'dead'H"), ("bin", "'01010101'B"), ("bin-short", "'101'B"), ("bin-empty", "''B")];
    for ty in ["OCTET STRING", "OCTET STRING (SIZE(0..4))", "BIT STRING", "BIT STRING (SIZE(0..16))"] {
        let tn = ty.replace(' ', "-").replace(['(', ')'], "").to_lowercase();
        for (vn, v) in octs {
            p(format!("default/{tn}/{vn}"), format!("T ::= SEQUENCE {{ a {ty} DEFAULT {v} }}"));
            p(format!("value-reference/{tn}/{vn}"), format!("my-val {ty} ::= {v}\nT ::= SEQUENCE {{ a BOOLEAN }}"));
            p(format!("default-by-reference/{tn}/{vn}"), format!("my-val {ty} ::= {v}\nT ::= SEQUENCE {{ a {ty} DEFAULT my-val }}"));
        }
    }
    // enumerations: referenced and inline, items needing name mangling
    for (vn, item) in [("plain", "green"), ("hyphen", "dark-blue"), ("camel", "lightRed"), ("digit", "c3")] {
        p(format!("default/enumerated-reference/{vn}"), format!("Colour ::= ENUMERATED {{ red, green, dark-blue, lightRed, c3 }}\nT ::= SEQUENCE {{ a Colour DEFAULT {item} }}"));
        p(format!("default/enumerated-inline/{vn}"), format!("T ::= SEQUENCE {{ a ENUMERATED {{ red, green, dark-blue, lightRed, c3 }} DEFAULT {item} }}"));
        p(format!("default/enumerated-extensible/{vn}"), format!("Colour ::= ENUMERATED {{ red, green, dark-blue, lightRed, ..., c3 }}\nT ::= SEQUENCE {{ a Colour DEFAULT {item} }}"));
        p(format!("value-reference/enumerated/{vn}"), format!("Colour ::= ENUMERATED {{ red, green, dark-blue, lightRed, c3 }}\nmy-val Colour ::= {item}\nT ::= SEQUENCE {{ a BOOLEAN }}"));
    }
    // DEFAULT through a type reference, in every container position
    p("default/reference-to-integer".into(), "Other ::= INTEGER (0..7)\nT ::= SEQUENCE { a Other DEFAULT 3 }".into());
    p("default/reference-to-boolean".into(), "Other ::= BOOLEAN\nT ::= SEQUENCE { a Other DEFAULT TRUE }".into());
    p("default/reference-to-string".into(), "Other ::= UTF8String\nT ::= SEQUENCE { a Other DEFAULT \"x\" }".into());
    p("default/reference-to-octet-string".into(), "Other ::= OCTET STRING\nT ::= SEQUENCE { a Other DEFAULT 'AB'H }".into());
    p("default/reference-to-reference".into(), "Inner ::= INTEGER (0..7)\nOther ::= Inner\nT ::= SEQUENCE { a Other DEFAULT 3 }".into());
    p("default/in-set".into(), "T ::= SET { a INTEGER (0..7) DEFAULT 3, b BOOLEAN DEFAULT TRUE }".into());
    p("default/extension-addition".into(), "T ::= SEQUENCE { z BOOLEAN, ..., a INTEGER (0..7) DEFAULT 3, b UTF8String DEFAULT \"x\" }".into());
    p("default/in-inline-sequence".into(), "T ::= SEQUENCE { o SEQUENCE { a INTEGER (0..7) DEFAULT 3 } }".into());
    p("default/in-list-element".into(), "T ::= SEQUENCE OF SEQUENCE { a INTEGER (0..7) DEFAULT 3 }".into());
    p("default/in-choice-alternative-sequence".into(), "T ::= CHOICE { s SEQUENCE { a INTEGER (0..7) DEFAULT 3 }, n NULL }".into());
    p("default/tagged".into(), "T ::= SEQUENCE { a [5] INTEGER (0..7) DEFAULT 3, b [APPLICATION 2] BOOLEAN DEFAULT FALSE }".into());
    p("default/named-number-type".into(), "T ::= SEQUENCE { a INTEGER { low(0), high(3) } (0..3) DEFAULT 2 }".into());
    p("default/null".into(), "T ::= SEQUENCE { a NULL DEFAULT NULL }".into());
    p("default/many".into(), "T ::= SEQUENCE { a INTEGER DEFAULT 1, b INTEGER (0..7) DEFAULT 2, c BOOLEAN DEFAULT TRUE, d UTF8String DEFAULT \"d\", e OCTET STRING DEFAULT 'EE'H, f IA5String DEFAULT \"f\" }".into());
    // value references used in constraints
    p("value-reference/in-range".into(), "lo INTEGER ::= -3\nhi INTEGER ::= 9\nT ::= INTEGER (lo..hi)".into());
    p("value-reference/in-size".into(), "n INTEGER ::= 4\nT ::= OCTET STRING (SIZE(1..n))".into());
    p("value-reference/in-list-size".into(), "n INTEGER ::= 4\nT ::= SEQUENCE (SIZE(n)) OF BOOLEAN".into());
    p("value-reference/typed-by-reference".into(), "Other ::= INTEGER (0..7)\nmy-val Other ::= 3\nT ::= SEQUENCE { a BOOLEAN }".into());
    p("value-reference/many".into(), "a-val INTEGER ::= 1\nb-val BOOLEAN ::= TRUE\nc-val UTF8String ::= \"c\"\nd-val OCTET STRING ::= 'DD'H\nT ::= SEQUENCE { a BOOLEAN }".into());
}

pub fn cases(thorough: bool) -> Vec<Case> {
    let mut out = vec![];
    keyword_cases(KEYWORDS, "keyword", &mut out);
    keyword_cases(RISKY_LOWER, "risky-name", &mut out);
    type_name_cases(&mut out);
    collision_cases(&mut out);
    default_and_value_cases(&mut out);
    // type forms: the C07 leaf forms in component contexts
    let quick_ctx = ["top-level", "sequence-mandatory", "sequence-default", "choice-alternative", "extension-addition", "sequence-of-any-p", "set-of-any-p"];
    for leaf in c07::leafs() {
        for tag in c07::tags() {
            if !thorough && tag.is_some() {
                continue;
            }
            for c in c07::contexts(&leaf, tag) {
                let ctx = c.label.split('/').next().unwrap_or("").to_string();
                let of = ctx.starts_with("sequence-of-") || ctx.starts_with("set-of-");
                let keep = if thorough { !of || ctx.ends_with("-p") } else { quick_ctx.contains(&ctx.as_str()) };
                if keep {
                    out.push(Case { label: format!("form/{}", c.label), text: c.module.asn() });
                }
            }
        }
    }
    // every size form on lists of a few element types (the list contexts above use one size form)
    for c in c07::depth2_cases() {
        out.push(Case { label: format!("form/{}", c.label), text: c.module.asn() });
    }
    for c in c07::module_level_cases() {
        if !c.module.imports.is_empty() {
            // a module with IMPORTS compiles only next to the modules it imports from: not a single-module case
            continue;
        }
        out.push(Case { label: format!("module/{}", c.label), text: c.module.asn() });
    }
    for (l, t) in c08::repo_corpus() {
        out.push(Case { label: l, text: t });
    }
    out
}

#[derive(Debug, Clone, PartialEq)]
pub enum Front {
    Rejected(String),
    Accepted,
    Panic(String),
}

pub fn front(text: &str) -> Front {
    let r = catch(|| match Model::try_from(Tokenizer.parse(text)) {
        Err(e) => Err(format!("parse: {}", truncate(format!("{e:?}").lines().next().unwrap_or(""), 120))),
        Ok(m) => m.try_resolve().map(|_| ()).map_err(|e| format!("resolve: {}", truncate(format!("{e:?}").lines().next().unwrap_or(""), 120))),
    });
    match r {
        Err(p) => Front::Panic(format!("front end: {p}")),
        Ok(Err(e)) => Front::Rejected(e),
        Ok(Ok(())) => match catch(|| asn1rs_model::proc_macro::asn_to_rust(text)) {
            Err(p) => Front::Panic(format!("generator: {p}")),
            Ok(_) => Front::Accepted,
        },
    }
}

fn target_root() -> PathBuf {
    PathBuf::from(std::env::var("CARGO_TARGET_DIR").unwrap_or_else(|_| "/verif/.target".into()))
}

const CRATES: usize = 16;

/// writes the scratch workspace; `active[i]` says whether case i takes part
fn write_workspace(ws: &Path, cases: &[Case], active: &[bool], first: bool) {
    if first {
        let _ = std::fs::remove_dir_all(ws);
        for k in 0..CRATES {
            std::fs::create_dir_all(ws.join(format!("g{k:02}/src"))).unwrap_or_else(|e| machinery_error(&format!("cannot create workspace: {e}")));
            std::fs::write(ws.join(format!("g{k:02}/Cargo.toml")), format!("[package]\nname = \"g{k:02}\"\nversion = \"0.1.0\"\nedition = \"2018\"\n\n[dependencies]\nasn1rs = {{ path = \"/repo\" }}\n")).unwrap();
        }
        let members: Vec<String> = (0..CRATES).map(|k| format!("\"g{k:02}\"")).collect();
        std::fs::write(ws.join("Cargo.toml"), format!("[workspace]\nresolver = \"2\"\nmembers = [{}]\n", members.join(", "))).unwrap();
        if let Ok(lock) = std::fs::read_to_string("/repo/Cargo.lock") {
            // the subject's lock file pins every dependency; cargo adds the scratch crates itself
            let _ = std::fs::write(ws.join("Cargo.lock"), lock);
        }
        for (i, c) in cases.iter().enumerate() {
            if active[i] {
                let k = i % CRATES;
                let mut hashes = String::from("#");
                while c.text.contains(&format!("\"{hashes}")) {
                    hashes.push('#');
                }
                std::fs::write(ws.join(format!("g{k:02}/src/m{i}.rs")), format!("asn1rs::macros::asn_to_rust!(r{hashes}\"{}\"{hashes});\n", c.text)).unwrap();
            }
        }
    }
    for k in 0..CRATES {
        let mut lib = String::from("#![allow(warnings)]\n");
        for i in (k..cases.len()).step_by(CRATES) {
            if active[i] {
                lib.push_str(&format!("pub mod m{i};\n"));
            }
        }
        std::fs::write(ws.join(format!("g{k:02}/src/lib.rs")), lib).unwrap();
    }
}

#[derive(Debug, Clone)]
pub struct RustcError {
    pub code: String,
    pub message: String,
}

/// one `cargo check` of the workspace: errors per case index, and errors that name no case file
fn cargo_check(ws: &Path) -> (BTreeMap<usize, Vec<RustcError>>, Vec<String>, bool) {
    let out = std::process::Command::new("cargo")
        .args(["check", "--offline", "--workspace", "--keep-going", "--message-format=json", "-q"])
        .current_dir(ws)
        .env("CARGO_TARGET_DIR", target_root().join("c09_target"))
        .env("CARGO_NET_OFFLINE", "true")
        .env_remove("RUSTFLAGS")
        .output()
        .unwrap_or_else(|e| machinery_error(&format!("cannot run cargo: {e}")));
    let mut per: BTreeMap<usize, Vec<RustcError>> = BTreeMap::new();
    let mut other = vec![];
    for line in String::from_utf8_lossy(&out.stdout).lines() {
        let Ok(v) = serde_json::from_str::<J>(line) else { continue };
        if v["reason"] != "compiler-message" {
            continue;
        }
        let m = &v["message"];
        let level = m["level"].as_str().unwrap_or("");
        if level != "error" && !level.starts_with("error") {
            continue;
        }
        let msg = m["message"].as_str().unwrap_or("").to_string();
        if msg.starts_with("aborting due to") || msg.starts_with("could not compile") {
            continue;
        }
        let code = m["code"]["code"].as_str().unwrap_or("no-code").to_string();
        let mut file: Option<usize> = None;
        fn find(spans: &J, file: &mut Option<usize>) {
            if let Some(a) = spans.as_array() {
                // primary spans first
                for pass in [true, false] {
                    for s in a {
                        if file.is_some() {
                            return;
                        }
                        if s["is_primary"].as_bool().unwrap_or(false) != pass {
                            continue;
                        }
                        let mut cur = s;
                        // walk out of macro expansions to the call site in a case file
                        for _ in 0..32 {
                            if let Some(n) = case_of(cur["file_name"].as_str().unwrap_or("")) {
                                *file = Some(n);
                                break;
                            }
                            if cur["expansion"].is_null() {
                                break;
                            }
                            cur = &cur["expansion"]["span"];
                        }
                    }
                }
            }
        }
        find(&m["spans"], &mut file);
        if file.is_none() {
            if let Some(ch) = m["children"].as_array() {
                for c in ch {
                    find(&c["spans"], &mut file);
                }
            }
        }
        match file {
            Some(i) => per.entry(i).or_default().push(RustcError { code, message: msg }),
            None => other.push(format!("[{code}] {}", truncate(&msg, 300))),
        }
    }
    let stderr = String::from_utf8_lossy(&out.stderr);
    if !out.status.success() && per.is_empty() && other.is_empty() {
        other.push(format!("cargo failed without a compiler message: {}", truncate(&stderr, 600)));
    }
    (per, other, out.status.success())
}

fn case_of(file: &str) -> Option<usize> {
    let name = file.rsplit('/').next()?;
    let n = name.strip_prefix('m')?.strip_suffix(".rs")?;
    n.parse().ok()
}

/// compile all `active` cases; returns the errors of every case that does not compile and the number of rounds
pub fn compile_all(ws: &Path, cases: &[Case], active: &mut [bool]) -> (BTreeMap<usize, Vec<RustcError>>, usize) {
    let mut failed: BTreeMap<usize, Vec<RustcError>> = BTreeMap::new();
    let mut rounds = 0;
    loop {
        write_workspace(ws, cases, active, rounds == 0);
        rounds += 1;
        let (per, other, ok) = cargo_check(ws);
        if !other.is_empty() {
            machinery_error(&format!("compiler errors that name no case file (round {rounds}): {}", other.iter().take(5).cloned().collect::<Vec<_>>().join(" | ")));
        }
        if per.is_empty() {
            if !ok {
                machinery_error("cargo check failed but reported no error");
            }
            return (failed, rounds);
        }
        for (i, e) in per {
            active[i] = false;
            failed.entry(i).or_default().extend(e);
        }
        if rounds > 12 {
            machinery_error("no fixpoint after 12 rounds of cargo check");
        }
    }
}

/// generalises a case name so that cases differing only in a counter share a class
fn family(label: &str) -> String {
    let parts: Vec<&str> = label.split('/').collect();
    match parts[0] {
        "form" => {
            let ctx = parts.get(1).copied().unwrap_or("");
            let leaf = parts.get(2).copied().unwrap_or("");
            let fam = leaf.split('-').next().unwrap_or("");
            let _ = fam;
            if ctx == "depth2" { format!("form.depth2.{}.{}", leaf, parts.get(3).copied().unwrap_or("")) } else { format!("form.{leaf}.{ctx}") }
        }
        "literal" if parts.len() == 4 && parts[2].starts_with("bit-string") => format!("literal.{}.bit-string", parts[1]),
        "literal" if parts.len() == 4 && parts[2] == "integer-un" && parts[3].starts_with('-') => format!("literal.{}.integer-un.negative", parts[1]),
        "keyword" | "risky-name" | "type-name" => format!("{}.{}.{}", parts[0], parts.get(1).copied().unwrap_or(""), parts.get(2).copied().unwrap_or("")),
        _ => label.replace('/', "."),
    }
}

fn error_kind(errs: &[RustcError]) -> String {
    let codes: BTreeSet<String> = errs.iter().map(|e| if e.code == "no-code" { if e.message.contains("proc macro panicked") || e.message.contains("proc-macro") { "macro-panic".to_string() } else { "syntax".to_string() } } else { e.code.clone() }).collect();
    codes.into_iter().collect::<Vec<_>>().join("+")
}

pub fn run(args: &Args) -> ! {
    let mut report = Report::new(args, "translation_validation");
    let thorough = args.tier.is_thorough();
    let cases = cases(thorough);
    let mut active = vec![false; cases.len()];
    let mut rejected = 0u64;
    let mut rejected_samples: BTreeMap<String, String> = BTreeMap::new();
    let mut agg: BTreeMap<String, (u64, Failure)> = BTreeMap::new();
    let mut add = |class: String, f: Failure| {
        agg.entry(class).or_insert((0, f)).0 += 1;
    };
    for (i, c) in cases.iter().enumerate() {
        match front(&c.text) {
            Front::Accepted => active[i] = true,
            Front::Rejected(e) => {
                rejected += 1;
                rejected_samples.entry(family(&c.label)).or_insert(e);
            }
            Front::Panic(p) => {
                let class = format!("c09.panic-instead-of-error.{}", family(&c.label));
                add(class.clone(), Failure { class, case: json!({"kind": "c09", "label": c.label, "asn": c.text}), expected: "an error value or generated code".into(), observed: truncate(&p, 300) });
            }
        }
    }
    let accepted = active.iter().filter(|a| **a).count();
    let ws = target_root().join("c09ws");
    let (failed, rounds) = compile_all(&ws, &cases, &mut active);
    // the repository's own test modules are known to compile: they anchor the harness
    for (i, c) in cases.iter().enumerate() {
        if c.label.starts_with("repo-test/") && failed.contains_key(&i) {
            machinery_error(&format!("{} (compiled by the repository's own tests) does not compile in the scratch workspace: {:?}", c.label, failed[&i].first()));
        }
    }
    for (i, errs) in &failed {
        let c = &cases[*i];
        // the class names the input only; the error codes are part of the observation
        let class = format!("c09.does-not-compile.{}", family(&c.label));
        let _ = error_kind(errs);
        let msgs: Vec<String> = errs.iter().take(3).map(|e| format!("[{}] {}", e.code, truncate(&e.message, 160))).collect();
        add(class.clone(), Failure { class, case: json!({"kind": "c09", "label": c.label, "asn": c.text}), expected: "cargo check accepts the crate containing asn_to_rust!(module)".into(), observed: msgs.join(" | ") });
    }
    drop(add);
    for (k, (n, f)) in agg {
        report.merge(k, n, f);
    }
    let compiled = active.iter().filter(|a| **a).count();
    let mut cov = Map::new();
    cov.insert("exhaustive".into(), json!(true));
    cov.insert("programs".into(), json!(cases.len()));
    cov.insert("accepted_by_front_end".into(), json!(accepted));
    cov.insert("rejected_by_front_end".into(), json!(rejected));
    cov.insert("compiled_clean".into(), json!(compiled));
    cov.insert("do_not_compile".into(), json!(failed.len()));
    cov.insert("cargo_check_rounds".into(), json!(rounds));
    cov.insert("evaluations".into(), json!(accepted));
    cov.insert("distinct_nontrivial".into(), json!(accepted));
    cov.insert("disagreements_checked".into(), json!(accepted));
    cov.insert("identifier_pool".into(), json!({"rust_keywords": KEYWORDS.len(), "risky_lowercase_names": RISKY_LOWER.len(), "type_names": TYPE_NAMES.len(), "positions_per_lowercase_name": 12, "positions_per_type_name": 5}));
    cov.insert("rejected_samples".into(), json!(rejected_samples.iter().take(12).map(|(k, v)| format!("{k}: {v}")).collect::<Vec<_>>()));
    cov.insert("rule".into(), json!("every case is one ASN.1 module; cases accepted by the real front end (Model::try_from + try_resolve, and the generator run in process must not panic) are written as asn1rs::asn_to_rust!(r\"..\") one file per case into a scratch workspace of 16 crates depending on /repo, and `cargo check` (real rustc, real proc macros asn_to_rust! and #[asn]) decides; errors are attributed to the case file of their primary span (walking out of macro expansions); failing cases are removed and the check repeated until all remaining cases compile together, so each accepted case is decided. The repository's own 37 inline test modules are part of every run and must compile (harness anchor)."));
    report.finish(cov, vec!["a module the front end rejects with an error value satisfies the property (counted as rejected); a panic does not".into(), "warnings are allowed, deny-by-default lints are errors as for a user".into()])
}

pub fn replay(case: &J) -> ! {
    let label = case["label"].as_str().unwrap_or("").to_string();
    let text = case["asn"].as_str().unwrap_or("").to_string();
    match front(&text) {
        Front::Rejected(e) => {
            println!("ok (rejected by the front end: {e})");
            std::process::exit(0)
        }
        Front::Panic(p) => {
            println!("FAIL c09.panic-instead-of-error.{} {p}", family(&label));
            std::process::exit(1)
        }
        Front::Accepted => {}
    }
    let cases = vec![Case { label: label.clone(), text }];
    let mut active = vec![true];
    let ws = target_root().join("c09ws_replay");
    let (failed, _) = compile_all(&ws, &cases, &mut active);
    let _ = std::fs::remove_dir_all(&ws);
    if let Some(errs) = failed.get(&0) {
        println!("FAIL c09.does-not-compile.{} ({})", family(&label), error_kind(errs));
        for e in errs.iter().take(5) {
            println!("  [{}] {}", e.code, truncate(&e.message, 200));
        }
        std::process::exit(1)
    }
    println!("ok");
    std::process::exit(0)
}

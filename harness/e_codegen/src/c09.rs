use serde_json::Value as J;
use vcore::report::*;
pub fn run(_args: &Args) -> ! {
    machinery_error("C09 not built yet")
}
pub fn replay(_c: &J) -> ! {
    machinery_error("C09 not built yet")
}

//! C08 — generated Rust code carries the whole model (generator <-> attribute parser), and the
//!       constants the macro expands to match the source ASN.1 constraints.
//! C09 — every accepted module yields Rust code that rustc accepts.

use vcore::report::*;

mod c08;
mod c09;
mod pool;
#[path = "../../e_front/src/lex.rs"]
#[allow(dead_code)]
mod lex;
#[path = "../../e_front/src/project.rs"]
#[allow(dead_code)]
mod project;
#[path = "../../e_front/src/c07.rs"]
#[allow(dead_code)]
mod c07;

fn main() {
    let args = parse_args();
    install_quiet_panic_hook();
    if let Some(p) = &args.replay {
        let c = load_replay(p);
        match c["kind"].as_str().unwrap_or("") {
            "c08" => c08::replay(&c),
            "c09" => c09::replay(&c),
            k => machinery_error(&format!("unknown replay kind {k}")),
        }
    }
    match args.property.as_str() {
        "C08" => c08::run(&args),
        "C09" => c09::run(&args),
        p => machinery_error(&format!("e_codegen does not serve {p}")),
    }
}

//! Identifier pool shared by C09 (does it compile?) and C18 (is the .proto valid?): keywords and
//! risky names in every position, type names, collision cases. Pure text builders.

#[derive(Clone, Debug)]
pub struct Case {
    /// group/position/name
    pub label: String,
    pub text: String,
}

pub const KEYWORDS: &[&str] = &[
    "as", "async", "await", "break", "const", "continue", "crate", "dyn", "else", "enum", "extern", "false", "fn", "for", "if", "impl", "in", "let", "loop", "match", "mod", "move", "mut", "pub", "ref", "return", "self", "static", "struct", "super", "trait", "true", "type",
    "unsafe", "use", "where", "while", "abstract", "become", "box", "do", "final", "macro", "override", "priv", "typeof", "unsized", "virtual", "yield", "try", "gen", "union", "raw",
];

/// lowercase names that are no keywords but meet names the generated code uses itself
pub const RISKY_LOWER: &[&str] = &["value", "reader", "writer", "default", "new", "read", "write", "clone", "fmt", "eq", "variant", "variants", "index", "min", "max", "len", "into", "from", "none", "some", "ok", "err", "vec", "string", "u8", "i64", "bool", "str", "main", "std", "core", "asn1rs", "prelude", "r", "tag", "constants", "inner", "other", "result", "option"];

/// type names: capitalised keywords and names of the Rust prelude / of asn1rs::prelude that generated code relies on
pub const TYPE_NAMES: &[&str] = &[
    "Self", "Box", "Option", "Vec", "String", "Some", "None", "Ok", "Err", "Result", "Default", "Clone", "Copy", "Debug", "PartialEq", "Eq", "Hash", "PartialOrd", "Ord", "Sized", "Send", "Sync", "Drop", "Fn", "Iterator", "From", "Into", "ToString", "ToOwned", "AsRef", "BitVec", "Reader", "Writer",
    "Readable", "Writable", "Error", "Utf8String", "Integer", "Boolean", "Constraint", "Null", "Sequence", "Choice", "Enumerated", "Scope", "Type", "Struct", "Enum", "Impl", "Trait", "Mod", "Crate", "Super", "Static", "Const", "Async", "Dyn", "Tag", "Bool", "Str", "U8", "I64", "Usize", "Std", "Core", "Asn1rs", "Prelude", "Main", "Test",
];

pub fn module(body: &str) -> String {
    format!("Gen DEFINITIONS AUTOMATIC TAGS ::= BEGIN\n{body}\nEND\n")
}

pub fn keyword_cases(names: &[&str], group: &str, out: &mut Vec<Case>) {
    for n in names {
        let mut p = |pos: &str, body: String| out.push(Case { label: format!("{group}/{pos}/{n}"), text: module(&body) });
        p("sequence-component", format!("T ::= SEQUENCE {{ {n} INTEGER (0..7), z BOOLEAN }}"));
        p("sequence-optional-component", format!("T ::= SEQUENCE {{ z BOOLEAN, {n} UTF8String OPTIONAL }}"));
        p("set-component", format!("T ::= SET {{ {n} INTEGER (0..7), z BOOLEAN }}"));
        p("choice-alternative", format!("T ::= CHOICE {{ {n} INTEGER (0..7), z BOOLEAN }}"));
        p("enumerated-item", format!("T ::= ENUMERATED {{ {n}, zz }}"));
        p("named-number", format!("T ::= INTEGER {{ {n}(1) }} (0..7)"));
        p("named-number-of-component", format!("T ::= SEQUENCE {{ a INTEGER {{ {n}(1) }} (0..7) }}"));
        p("named-bit", format!("T ::= BIT STRING {{ {n}(1) }} (SIZE(8))"));
        p("value-reference", format!("{n} INTEGER ::= 5\nT ::= INTEGER (0..{n})"));
        p("inline-sequence-component", format!("T ::= SEQUENCE {{ {n} SEQUENCE {{ b BOOLEAN }} }}"));
        p("inline-enumerated-component", format!("T ::= SEQUENCE {{ {n} ENUMERATED {{ x, y }} }}"));
        // the name right before the extension marker is written a second time, in the header attribute
        p("extensible-sequence-last-root-component", format!("T ::= SEQUENCE {{ z BOOLEAN, {n} INTEGER (0..7), ..., y BOOLEAN }}"));
        p("extensible-set-last-root-component", format!("T ::= SET {{ z BOOLEAN, {n} INTEGER (0..7), ..., y BOOLEAN }}"));
        p("extensible-choice-last-root-alternative", format!("T ::= CHOICE {{ z BOOLEAN, {n} NULL, ..., y BOOLEAN }}"));
        p("extensible-enumerated-last-root-item", format!("T ::= ENUMERATED {{ zz, {n}, ..., yy }}"));
        p("default-component", format!("T ::= SEQUENCE {{ {n} INTEGER (0..7) DEFAULT 3, z BOOLEAN }}"));
        p("list-component", format!("T ::= SEQUENCE {{ {n} SEQUENCE OF INTEGER (0..7), z BOOLEAN }}"));
        p("default-enumerated-item", format!("E ::= ENUMERATED {{ {n}, zz }}\nT ::= SEQUENCE {{ a E DEFAULT {n} }}"));
    }
}

pub fn type_name_cases(out: &mut Vec<Case>) {
    for n in TYPE_NAMES {
        let mut p = |pos: &str, body: String| out.push(Case { label: format!("type-name/{pos}/{n}"), text: module(&body) });
        p("sequence", format!("{n} ::= SEQUENCE {{ a INTEGER (0..7) OPTIONAL, b UTF8String, c SEQUENCE OF BOOLEAN, d BIT STRING, e OCTET STRING }}\nT ::= SEQUENCE {{ x {n}, y {n} OPTIONAL }}"));
        p("integer", format!("{n} ::= INTEGER (0..7)\nT ::= SEQUENCE {{ x {n}, y SEQUENCE OF {n}, z UTF8String OPTIONAL }}"));
        p("enumerated", format!("{n} ::= ENUMERATED {{ a, b }}\nT ::= SEQUENCE {{ x {n} DEFAULT b, z UTF8String OPTIONAL }}"));
        p("choice", format!("{n} ::= CHOICE {{ a BOOLEAN, b NULL, c UTF8String }}\nT ::= CHOICE {{ x {n}, y NULL }}\nL ::= SEQUENCE OF {n}"));
        p("sequence-of", format!("{n} ::= SEQUENCE OF INTEGER (0..7)\nT ::= SEQUENCE {{ x {n}, z OCTET STRING OPTIONAL }}"));
    }
}

pub fn collision_cases(out: &mut Vec<Case>) {
    let mut p = |name: &str, body: &str| out.push(Case { label: format!("collision/{name}"), text: module(body) });
    // distinct ASN.1 identifiers that meet in one Rust identifier
    p("components/ab-c+abC", "T ::= SEQUENCE { ab-c BOOLEAN, abC BOOLEAN }");
    p("components/a-b+a-B", "T ::= SEQUENCE { a-b BOOLEAN, a-B BOOLEAN }");
    p("components/abc+aBC", "T ::= SEQUENCE { abc BOOLEAN, aBC BOOLEAN }");
    p("components/a1+a-1", "T ::= SEQUENCE { a1 BOOLEAN, a-1 BOOLEAN }");
    p("set-components/ab-c+abC", "T ::= SET { ab-c BOOLEAN, abC BOOLEAN }");
    p("alternatives/ab-c+abC", "T ::= CHOICE { ab-c BOOLEAN, abC NULL }");
    p("alternatives/abc+aBC", "T ::= CHOICE { abc BOOLEAN, aBC NULL }");
    p("alternatives/a-b+a-B", "T ::= CHOICE { a-b BOOLEAN, a-B NULL }");
    p("enumerated-items/ab-c+abC", "T ::= ENUMERATED { ab-c, abC }");
    p("enumerated-items/a-b+a-B", "T ::= ENUMERATED { a-b, a-B }");
    p("enumerated-items/abc+aBC", "T ::= ENUMERATED { abc, aBC }");
    p("types/Ab-c+AbC", "Ab-c ::= BOOLEAN\nAbC ::= NULL\nT ::= SEQUENCE { x Ab-c, y AbC }");
    p("types/AB+Ab", "AB ::= BOOLEAN\nAb ::= NULL\nT ::= SEQUENCE { x AB, y Ab }");
    p("types/A-B+AB", "A-B ::= BOOLEAN\nAB ::= NULL\nT ::= SEQUENCE { x A-B, y AB }");
    p("types/ABC+Abc", "ABC ::= BOOLEAN\nAbc ::= NULL\nT ::= SEQUENCE { x ABC, y Abc }");
    p("type-vs-inline-sequence", "T ::= SEQUENCE { a SEQUENCE { b BOOLEAN } }\nTA ::= BOOLEAN");
    p("type-vs-inline-enumerated", "T ::= SEQUENCE { a ENUMERATED { x, y } }\nTA ::= BOOLEAN");
    p("type-vs-inline-choice", "T ::= SEQUENCE { a CHOICE { x NULL, y BOOLEAN } }\nTA ::= BOOLEAN");
    p("type-vs-inline-of-choice", "T ::= CHOICE { a SEQUENCE { b BOOLEAN }, c NULL }\nTA ::= BOOLEAN");
    p("inline-vs-inline", "T ::= SEQUENCE { a-b SEQUENCE { x BOOLEAN } }\nTA ::= SEQUENCE { b SEQUENCE { y BOOLEAN } }");
    p("inline-list-element-enumerated", "T ::= SEQUENCE OF ENUMERATED { a, b }");
    p("inline-list-element-sequence", "T ::= SEQUENCE OF SEQUENCE { a BOOLEAN }");
    p("inline-list-element-choice", "T ::= SEQUENCE OF CHOICE { a BOOLEAN, b NULL }");
    p("inline-list-element-of-component", "T ::= SEQUENCE { l SEQUENCE OF ENUMERATED { a, b }, m SEQUENCE OF SEQUENCE { a BOOLEAN } }");
    p("inline-list-in-list", "T ::= SEQUENCE OF SEQUENCE OF ENUMERATED { a, b }");
    p("inline-set-of-element-enumerated", "T ::= SET OF ENUMERATED { a, b }");
    // names of generated accessors
    p("accessor/a+a-mut", "T ::= SEQUENCE { a INTEGER (0..3), a-mut INTEGER (0..3) }");
    p("accessor/a+set-a", "T ::= SEQUENCE { a INTEGER (0..3), set-a INTEGER (0..3) }");
    p("accessor/a+a-min", "T ::= SEQUENCE { a INTEGER (0..3), a-min INTEGER (0..3) }");
    p("accessor/a+a-max", "T ::= SEQUENCE { a INTEGER (0..3), a-max INTEGER (0..3) }");
    p("accessor/value-min", "T ::= SEQUENCE { value INTEGER (0..3), value-min BOOLEAN }");
    p("accessor/choice-a+is-a", "T ::= CHOICE { a BOOLEAN, is-a NULL }");
    // names of the constraint types of list elements and DEFAULT values
    p("element-constraint/foo+foo-values", "T ::= SEQUENCE { foo SEQUENCE OF INTEGER (0..3), foo-values INTEGER (0..3) }");
    p("element-constraint/foo+fooValues", "T ::= SEQUENCE { foo SET OF BOOLEAN, fooValues BOOLEAN }");
    p("value-constraint/bar+bar-value", "T ::= SEQUENCE { bar INTEGER (0..3) DEFAULT 2, bar-value BOOLEAN }");
    p("value-constraint/alternative-a+a-values", "T ::= CHOICE { a SEQUENCE OF BOOLEAN, a-values BOOLEAN }");
    // constants of named numbers / bits
    p("constants/a:b-c+a-b:c", "T ::= SEQUENCE { a INTEGER { b-c(1) } (0..3), a-b INTEGER { c(2) } (0..3) }");
    p("constants/named-numbers-b-c+bC", "T ::= INTEGER { b-c(1), bC(2) } (0..3)");
    p("constants/named-bits-b-c+bC", "T ::= BIT STRING { b-c(1), bC(2) } (SIZE(8))");
    p("constants/named-number-min", "T ::= INTEGER { min(1), max(2) } (0..3)");
    p("constants/component-named-number-min", "T ::= SEQUENCE { a INTEGER { min(1), max(2) } (0..3) }");
    p("value-references/ab-c+abC", "ab-c INTEGER ::= 1\nabC INTEGER ::= 2\nT ::= INTEGER (0..7)");
    p("value-references/ab-c+ab-C", "ab-c INTEGER ::= 1\nab-C INTEGER ::= 2\nT ::= INTEGER (0..7)");
    // a component named like its own type, a type named like the module
    p("component-named-like-type", "T ::= SEQUENCE { t T2 }\nT2 ::= BOOLEAN");
    p("type-named-like-module", "Gen ::= SEQUENCE { gen BOOLEAN }");
    p("recursive-through-list", "T ::= SEQUENCE { children SEQUENCE OF T }");
    p("recursive-through-optional", "T ::= SEQUENCE { next T OPTIONAL }");
    p("recursive-through-choice", "T ::= CHOICE { leaf NULL, node SEQUENCE OF T }");
    // a component list that is only an extension marker
    p("empty-extensible-sequence", "T ::= SEQUENCE { ... }");
    p("empty-extensible-sequence-inline", "T ::= SEQUENCE { a SEQUENCE { ... } }");
    p("empty-sequence", "T ::= SEQUENCE { }\nU ::= SEQUENCE { e T }");
    // separators and digits
    p("names/digits", "T1 ::= SEQUENCE { a1 BOOLEAN, a2b BOOLEAN, a-2 BOOLEAN }\nT ::= SEQUENCE { x T1 }");
    p("names/long-hyphenated", "T ::= SEQUENCE { this-is-a-very-long-hyphenated-component-name BOOLEAN, thisIsCamelCase BOOLEAN, mixed-camelCase-name BOOLEAN }");
    p("names/upper-run", "T ::= SEQUENCE { httpURL BOOLEAN, xMLParser BOOLEAN, iD BOOLEAN }\nHTTPRequest ::= BOOLEAN\nXMLHttpRequest ::= NULL");
    // bounds whose digits are grouped in the generated accessors: every digit count 1..19, both signs
    p("numbers/digit-grouping-negative", "T ::= SEQUENCE { a INTEGER (-9..9), b INTEGER (-99..99), c INTEGER (-999..999), d INTEGER (-9999..9999), e INTEGER (-99999..99999), f INTEGER (-999999..999999), g INTEGER (-9999999..9999999), h INTEGER (-99999999..99999999), i INTEGER (-999999999..999999999), j INTEGER (-9999999999..9999999999), k INTEGER (-999999999999..999999999999), l INTEGER (-999999999999999..999999999999999), m INTEGER (-999999999999999999..999999999999999999) }");
    p("numbers/digit-grouping-top-level", "Latitude ::= INTEGER (-900000000..900000001)\nLongitude ::= INTEGER (-1800000000..1800000001)\nL ::= SEQUENCE OF INTEGER (-100000..100000)\nC ::= CHOICE { x INTEGER (-123456..-100000), y NULL }");
    // an identifier that is an item of the component's ENUMERATED type and a value reference of the module as well
    p("default-item-vs-value-reference", "unavailable INTEGER ::= 127\nConfidence ::= ENUMERATED { low, high, unavailable }\nT ::= SEQUENCE { c Confidence DEFAULT unavailable, n INTEGER (0..255) DEFAULT unavailable }");
    // one-letter segments: the name mapping is not idempotent there (a-b -> AB -> Ab)
    p("names/default-item-with-one-letter-segments", "Plan ::= ENUMERATED { a-b, x-y-position, zz }\nT ::= SEQUENCE { p Plan DEFAULT a-b, q Plan DEFAULT x-y-position, z BOOLEAN }");
    p("names/default-item-of-type-with-one-letter-segments", "X-Y ::= ENUMERATED { up, down }\nA-B-Type ::= ENUMERATED { e-w, n-s }\nT ::= SEQUENCE { r X-Y DEFAULT down, s A-B-Type DEFAULT n-s }");
    p("names/one-letter-segments-everywhere", "X-Y ::= SEQUENCE { a-b BOOLEAN, c-d-e INTEGER (0..7) OPTIONAL }\nT ::= CHOICE { p-q X-Y, r-s NULL }\nL ::= SEQUENCE OF X-Y");
    p("names/single-letter", "A ::= BOOLEAN\nT ::= SEQUENCE { a A, b BOOLEAN }");
}


//! C04, DER part: every byte string up to 2 (quick) / 3 (thorough) bytes through the primitives the
//! DER reader implements.

use asn1rs::descriptor::{boolean, numbers, Reader};
use asn1rs::protocol::basic::{BasicRead, DER};
use serde_json::{json, Value as J};
use std::collections::BTreeMap;
use vcore::refbits::hex;
use vcore::report::*;

pub struct DerResult {
    pub evals: u64,
    pub fails: BTreeMap<String, (u64, Failure)>,
}

fn ops() -> Vec<(&'static str, fn(&[u8]) -> Result<String, String>)> {
    vec![
        ("read_identifier", |b| { let mut s: &[u8] = b; s.read_identifier().map(|t| format!("{t:?}")).map_err(|e| format!("{e:?}")) }),
        ("read_length", |b| { let mut s: &[u8] = b; s.read_length().map(|t| t.to_string()).map_err(|e| format!("{e:?}")) }),
        ("read_boolean", |b| { let mut s: &[u8] = b; s.read_boolean().map(|t| t.to_string()).map_err(|e| format!("{e:?}")) }),
        ("read_integer_i64", |b| { let mut s: &[u8] = &b[b.len().min(1)..]; s.read_integer_i64(b.first().copied().unwrap_or(0) as u32).map(|t| t.to_string()).map_err(|e| format!("{e:?}")) }),
        ("read_integer_u64", |b| { let mut s: &[u8] = &b[b.len().min(1)..]; s.read_integer_u64(b.first().copied().unwrap_or(0) as u32).map(|t| t.to_string()).map_err(|e| format!("{e:?}")) }),
        ("reader.read_boolean", |b| { let mut s: &[u8] = b; let mut r = DER::reader(&mut s); r.read_boolean::<boolean::NoConstraint>().map(|t| t.to_string()).map_err(|e| format!("{e:?}")) }),
        ("reader.read_number_i64", |b| { let mut s: &[u8] = b; let mut r = DER::reader(&mut s); r.read_number::<i64, numbers::NoConstraint>().map(|t| t.to_string()).map_err(|e| format!("{e:?}")) }),
        ("reader.read_number_u8", |b| { let mut s: &[u8] = b; let mut r = DER::reader(&mut s); r.read_number::<u8, numbers::NoConstraint>().map(|t| t.to_string()).map_err(|e| format!("{e:?}")) }),
    ]
}

fn check(name: &str, f: fn(&[u8]) -> Result<String, String>, bytes: &[u8], fails: &mut BTreeMap<String, (u64, Failure)>) {
    if let Err(p) = catch(|| f(bytes)) {
        let class = format!("der.{name}.panic");
        let fl = Failure { class: class.clone(), case: json!({"kind":"der","op":name,"bytes":hex(bytes)}), expected: "Ok or Err".into(), observed: format!("panic: {p}") };
        fails.entry(class).or_insert((0, fl)).0 += 1;
    }
}

pub fn explore(thorough: bool) -> DerResult {
    let mut r = DerResult { evals: 0, fails: BTreeMap::new() };
    let maxlen = if thorough { 3 } else { 2 };
    for (name, f) in ops() {
        for len in 0..=maxlen {
            let total: u32 = 1 << (8 * len);
            for x in 0..total {
                let bytes: Vec<u8> = (0..len).map(|i| ((x >> (8 * (len - 1 - i))) & 0xFF) as u8).collect();
                r.evals += 1;
                check(name, f, &bytes, &mut r.fails);
            }
        }
        // long-form lengths with up to 9 length octets and integers with up to 9 content octets
        for n in 0..=10u8 {
            for fill in [0x00u8, 0x7F, 0x80, 0xFF] {
                let mut bytes = vec![0x80 | n];
                bytes.extend(std::iter::repeat(fill).take(n as usize + 1));
                r.evals += 1;
                check(name, f, &bytes, &mut r.fails);
                let mut tlv = vec![0x02, n];
                tlv.extend(std::iter::repeat(fill).take(n as usize));
                r.evals += 1;
                check(name, f, &tlv, &mut r.fails);
            }
        }
    }
    r
}

pub fn replay(case: &J) -> ! {
    let name = case["op"].as_str().unwrap_or("");
    let bytes = vcore::refbits::unhex(case["bytes"].as_str().unwrap_or(""));
    for (n, f) in ops() {
        if n == name {
            let a = catch(|| f(&bytes));
            let b = catch(|| f(&bytes));
            if format!("{a:?}") != format!("{b:?}") {
                machinery_error("replay not deterministic");
            }
            println!("{a:?}");
            std::process::exit(if a.is_err() { 1 } else { 0 });
        }
    }
    machinery_error("unknown der op")
}

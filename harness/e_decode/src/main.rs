//! C04 — decoders are total on arbitrary input (no panic / abort / hang / unbounded allocation /
//!       success beyond the declared length; accessors stay callable), and
//! C19 — the descriptive-deserialize-errors feature does not change outcomes.
//!
//! One enumerated input space (blocks of cases), swept in worker processes (vcore::sweep). For C19
//! the same space is walked by a second binary built with the feature on; outcome digests are
//! compared block by block and a differing block is re-walked case by case in both.

use asn1rs::rw::{Bits, ScopedBitRead, UperReader};
use serde_json::{json, Map, Value as J};
use std::alloc::{GlobalAlloc, Layout, System};
use std::collections::BTreeMap;
use std::sync::atomic::{AtomicUsize, Ordering};
use vcore::refbits::{hex, pack, unhex, unpack_n};
use vcore::report::*;
use vcore::schema::*;
use vcore::values::{self, Budget};
use vcore::zoo_def;
use zoo::Entry;

mod der;

// ---- allocation meter -------------------------------------------------------------------------
struct Meter;
static LIVE: AtomicUsize = AtomicUsize::new(0);
static PEAK: AtomicUsize = AtomicUsize::new(0);
static LARGEST: AtomicUsize = AtomicUsize::new(0);
const REFUSE_ABOVE: usize = 1 << 30;

unsafe impl GlobalAlloc for Meter {
    unsafe fn alloc(&self, l: Layout) -> *mut u8 {
        let n = l.size();
        if n > LARGEST.load(Ordering::Relaxed) {
            LARGEST.store(n, Ordering::Relaxed);
        }
        if n > REFUSE_ABOVE {
            // tell the parent why we are about to die (alloc failure aborts the process)
            let msg = format_small(n);
            libc::write(1, msg.as_ptr() as *const libc::c_void, msg.len());
            return std::ptr::null_mut();
        }
        let p = System.alloc(l);
        if !p.is_null() {
            let live = LIVE.fetch_add(n, Ordering::Relaxed) + n;
            if live > PEAK.load(Ordering::Relaxed) {
                PEAK.store(live, Ordering::Relaxed);
            }
        }
        p
    }
    unsafe fn dealloc(&self, p: *mut u8, l: Layout) {
        LIVE.fetch_sub(l.size(), Ordering::Relaxed);
        System.dealloc(p, l)
    }
    unsafe fn alloc_zeroed(&self, l: Layout) -> *mut u8 {
        let n = l.size();
        if n > LARGEST.load(Ordering::Relaxed) {
            LARGEST.store(n, Ordering::Relaxed);
        }
        if n > REFUSE_ABOVE {
            let msg = format_small(n);
            libc::write(1, msg.as_ptr() as *const libc::c_void, msg.len());
            return std::ptr::null_mut();
        }
        let p = System.alloc_zeroed(l);
        if !p.is_null() {
            let live = LIVE.fetch_add(n, Ordering::Relaxed) + n;
            if live > PEAK.load(Ordering::Relaxed) {
                PEAK.store(live, Ordering::Relaxed);
            }
        }
        p
    }
}

/// "A <n>\n" without allocating
fn format_small(n: usize) -> [u8; 32] {
    let mut buf = [b' '; 32];
    buf[0] = b'A';
    let mut digits = [0u8; 24];
    let mut k = 0;
    let mut x = n;
    loop {
        digits[k] = b'0' + (x % 10) as u8;
        k += 1;
        x /= 10;
        if x == 0 {
            break;
        }
    }
    for i in 0..k {
        buf[2 + i] = digits[k - 1 - i];
    }
    buf[2 + k] = b'\n';
    buf
}

#[global_allocator]
static GLOBAL: Meter = Meter;

fn meter_reset() {
    PEAK.store(LIVE.load(Ordering::Relaxed), Ordering::Relaxed);
    LARGEST.store(0, Ordering::Relaxed);
}

// ---- outcomes ----------------------------------------------------------------------------------

#[derive(Clone, Debug, PartialEq)]
pub struct Outcome {
    /// "Ok:<debug of value>" | "Err:<kind name>" | "Panic:<message>"
    pub res: String,
    /// like `res`, an error with the payload of its kind (what C19 compares between the two builds)
    pub full: String,
    /// reader position after the call, or None if the accessor itself panicked
    pub pos: Option<usize>,
    pub len_after: Option<usize>,
    pub largest_alloc: usize,
    pub peak_extra: usize,
}

pub fn decode(e: &Entry, bytes: &[u8], bit_len: usize) -> Outcome {
    let base = LIVE.load(Ordering::Relaxed);
    meter_reset();
    let bits = Bits::from((bytes, bit_len));
    let mut r = UperReader::from(bits);
    let (res, full) = match catch(|| e.ops.uper_read_debug(&mut r)) {
        Ok(Ok(s)) => (format!("Ok:{s}"), None),
        Ok(Err((kind, full))) => (format!("Err:{kind}"), Some(format!("Err:{full}"))),
        Err(p) => (format!("Panic:{p}"), None),
    };
    let full = full.unwrap_or_else(|| res.clone());
    let largest = LARGEST.load(Ordering::Relaxed);
    let peak = PEAK.load(Ordering::Relaxed).saturating_sub(base);
    // accessors must stay callable after a failed read
    let rem = catch(|| r.bits_remaining());
    let b = r.into_bits();
    let (pos, len_after) = match catch(|| (b.pos(), b.len())) {
        Ok((p, l)) if rem.is_ok() => (Some(p), Some(l)),
        _ => (None, None),
    };
    Outcome { res, full, pos, len_after, largest_alloc: largest, peak_extra: peak }
}

// ---- the input space ---------------------------------------------------------------------------

#[derive(Clone, Debug)]
pub enum Block {
    /// every bit string of length `l` for type `ty`
    AllStrings { ty: usize, l: usize },
    /// every single fault (and, thorough, pairs of faults) on one valid seed encoding
    Faults { ty: usize, seed: Vec<bool>, depth: usize },
    /// valid encodings (written by the real writer) of the larger values of the type, unchanged
    Valid { ty: usize, encodings: Vec<Vec<bool>> },
}

pub struct Space {
    pub reg: Vec<Entry>,
    pub types: Vec<usize>,
    pub blocks: Vec<Block>,
    pub zoo: Vec<zoo_def::ZooModule>,
}

#[derive(Clone, Debug)]
pub struct Input {
    pub bits: Vec<bool>,
    /// description of how it was derived
    pub how: String,
}

fn faults_of(seed: &[bool]) -> Vec<Input> {
    let n = seed.len();
    let mut out = vec![];
    for i in 0..n {
        let mut b = seed.to_vec();
        b[i] = !b[i];
        out.push(Input { bits: b, how: format!("flip bit {i}") });
    }
    for i in 0..n {
        out.push(Input { bits: seed[..i].to_vec(), how: format!("truncate to {i} bits") });
    }
    let bytes = pack(seed);
    for j in 0..bytes.len() {
        let mut b = bytes.clone();
        b.remove(j);
        let keep = n.saturating_sub(8).min(b.len() * 8);
        out.push(Input { bits: unpack_n(&b, keep), how: format!("delete byte {j}") });
        for ins in [0x00u8, 0xFF, 0x80] {
            let mut b = bytes.clone();
            b.insert(j, ins);
            out.push(Input { bits: unpack_n(&b, n + 8), how: format!("insert byte {ins:02x} at {j}") });
        }
        for set in [0x00u8, 0xFF, 0x7F, 0x80, 0xC1, 0xC4] {
            if bytes[j] != set {
                let mut b = bytes.clone();
                b[j] = set;
                out.push(Input { bits: unpack_n(&b, n), how: format!("set byte {j} to {set:02x}") });
            }
        }
    }
    // length determinants and indices sit at arbitrary bit offsets: every 8- and 16-bit window at every BIT
    // offset overwritten with the octet patterns that select the length forms (0x7F/0x80: one / two octet form,
    // 0xBF: largest two octet form, 0xC1/0xC4: 16K / 64K fragment headers, all ones, all zeros)
    for i in 0..n.saturating_sub(7) {
        for pat in [0x00u8, 0xFF, 0x7F, 0x80, 0xBF, 0xC1, 0xC4] {
            let mut b = seed.to_vec();
            for k in 0..8 {
                b[i + k] = pat & (0x80 >> k) != 0;
            }
            if b != seed {
                out.push(Input { bits: b, how: format!("set 8 bits at bit {i} to {pat:02x}") });
            }
        }
    }
    for i in 0..n.saturating_sub(15) {
        for pat in [0xFFFFu16, 0x8000, 0xBFFF, 0x7FFF, 0xC100] {
            let mut b = seed.to_vec();
            for k in 0..16 {
                b[i + k] = pat & (0x8000 >> k) != 0;
            }
            if b != seed {
                out.push(Input { bits: b, how: format!("set 16 bits at bit {i} to {pat:04x}") });
            }
        }
    }
    // the extreme 8-octet numbers in both "length + octets" spellings (with and without the leading
    // ">= 64" bit of a normally small number) at every bit offset, replacing the tail and inserted before it:
    // every site that reads an unbounded number meets u64::MAX, i64::MAX and i64::MIN
    let octets = |first: u8, rest: u8| -> Vec<bool> {
        let mut v = vec![];
        for b in std::iter::once(8u8).chain(std::iter::once(first)).chain(std::iter::repeat(rest).take(7)) {
            for k in 0..8 {
                v.push(b & (0x80 >> k) != 0);
            }
        }
        v
    };
    let pats: Vec<(&str, Vec<bool>)> = vec![("u64::MAX", octets(0xFF, 0xFF)), ("i64::MAX", octets(0x7F, 0xFF)), ("i64::MIN", octets(0x80, 0x00))];
    for i in 0..=n {
        for (name, p) in &pats {
            for lead in [false, true] {
                let mut pat = if lead { vec![true] } else { vec![] };
                pat.extend_from_slice(p);
                let mut b = seed[..i].to_vec();
                b.extend_from_slice(&pat);
                out.push(Input { bits: b.clone(), how: format!("replace the tail from bit {i} by {}8 octets {name}", if lead { "'1' + " } else { "" }) });
                b.extend_from_slice(&seed[i..]);
                out.push(Input { bits: b, how: format!("insert {}8 octets {name} at bit {i}", if lead { "'1' + " } else { "" }) });
            }
        }
    }
    out
}

impl Space {
    pub fn new(tier: Tier) -> Self {
        let zoo = zoo_def::zoo();
        let reg = zoo::registry();
        let thorough = tier.is_thorough();
        let types: Vec<usize> = (0..reg.len())
            .filter(|i| {
                let z = &zoo[reg[*i].module_index];
                matches!(z.group, "leaf" | "cont" | "hist") && (thorough || z.quick)
            })
            .collect();
        let mut blocks = vec![];
        for &t in &types {
            // quick: every string up to 11 bits; thorough: up to 16 bits for the quick types, 12 for the rest
            let lmax = if !thorough { 11 } else if zoo[reg[t].module_index].quick { 16 } else { 12 };
            for l in 0..=lmax {
                blocks.push(Block::AllStrings { ty: t, l });
            }
        }
        // seeds: valid encodings produced by the real writer for a few values of every type
        for &t in &types {
            let e = &reg[t];
            let m = &zoo[e.module_index].module;
            let d = m.find(e.def).unwrap();
            let b = Budget { max_size: 20, nested_leaf: 2, product_cap: 32, ext_out: true, large_sizes: &[] };
            let mut seeds: Vec<Vec<bool>> = vec![];
            for v in values::values(m, &d.ty, &b) {
                if !matches!(catch(|| e.ops.reflect(&v)), Ok(r) if r == v.normalize()) {
                    continue;
                }
                let enc = catch(|| {
                    let mut w = asn1rs::rw::UperWriter::default();
                    e.ops.uper_write(&mut w, &v).map(|_| unpack_n(w.byte_content(), w.bit_len()))
                });
                if let Ok(Ok(bits)) = enc {
                    if !bits.is_empty() && bits.len() <= 400 && !seeds.iter().any(|s| s.len() == bits.len()) {
                        seeds.push(bits);
                    }
                }
            }
            seeds.sort_by_key(|s| s.len());
            let keep = if thorough { 10 } else { 5 };
            // shortest, longest and evenly spread in between
            let pick: Vec<Vec<bool>> = if seeds.len() <= keep { seeds } else { (0..keep).map(|k| seeds[k * (seeds.len() - 1) / (keep - 1)].clone()).collect() };
            for s in pick {
                let depth = if thorough && s.len() <= 24 && zoo[e.module_index].quick { 2 } else { 1 };
                blocks.push(Block::Faults { ty: t, seed: s, depth });
            }
        }
        // the valid encodings of the values of a larger budget, as they are (long strings and lists, fragmented
        // lengths): no fault, but still "every input" of C04 and C19
        for &t in &types {
            let e = &reg[t];
            let m = &zoo[e.module_index].module;
            let d = m.find(e.def).unwrap();
            let b = if thorough { Budget::quick().with_max_size(17000) } else { Budget::quick().with_max_size(1100) };
            let b = Budget { large_sizes: &[], ..b };
            let mut encs: Vec<Vec<bool>> = vec![];
            for v in values::values(m, &d.ty, &b) {
                if !matches!(catch(|| e.ops.reflect(&v)), Ok(r) if r == v.normalize()) {
                    continue;
                }
                let enc = catch(|| {
                    let mut w = asn1rs::rw::UperWriter::default();
                    e.ops.uper_write(&mut w, &v).map(|_| unpack_n(w.byte_content(), w.bit_len()))
                });
                if let Ok(Ok(bits)) = enc {
                    if bits.len() > 400 {
                        encs.push(bits);
                    }
                }
            }
            for chunk in encs.chunks(32) {
                blocks.push(Block::Valid { ty: t, encodings: chunk.to_vec() });
            }
        }
        Space { reg, types, blocks, zoo }
    }

    pub fn inputs(&self, b: &Block) -> Vec<Input> {
        match b {
            Block::AllStrings { l, .. } => (0..(1u32 << l)).map(|x| Input { bits: (0..*l).map(|i| (x >> (l - 1 - i)) & 1 == 1).collect(), how: "all-strings".into() }).collect(),
            Block::Valid { encodings, .. } => encodings.iter().map(|b| Input { bits: b.clone(), how: "valid-encoding".into() }).collect(),
            Block::Faults { seed, depth, .. } => {
                let mut one = faults_of(seed);
                if *depth >= 2 {
                    let mut two = vec![];
                    for f in &one {
                        if f.how.starts_with("flip") || f.how.starts_with("set byte") {
                            for g in faults_of(&f.bits) {
                                if g.how.starts_with("flip") || g.how.starts_with("truncate") {
                                    two.push(Input { bits: g.bits, how: format!("{} + {}", f.how, g.how) });
                                }
                            }
                        }
                    }
                    one.extend(two);
                }
                one
            }
        }
    }

    pub fn entry_of(&self, b: &Block) -> &Entry {
        match b {
            Block::AllStrings { ty, .. } | Block::Faults { ty, .. } | Block::Valid { ty, .. } => &self.reg[*ty],
        }
    }
}

pub fn type_kind(space: &Space, e: &Entry) -> String {
    let m = &space.zoo[e.module_index].module;
    match m.resolve(&m.find(e.def).unwrap().ty) {
        Ty::Bool => "boolean".into(),
        Ty::Null => "null".into(),
        Ty::Int { .. } => "integer".into(),
        Ty::Enum { .. } => "enumerated".into(),
        Ty::BitStr { .. } => "bitstring".into(),
        Ty::OctStr { .. } => "octetstring".into(),
        Ty::Str { cs, .. } => format!("{:?}string", cs).to_lowercase(),
        Ty::Seq { set: false, .. } => "sequence".into(),
        Ty::Seq { set: true, .. } => "set".into(),
        Ty::SeqOf { .. } => "sequenceof".into(),
        Ty::Choice { .. } => "choice".into(),
        Ty::Ref(_) => unreachable!(),
    }
}

/// the three embeddings of a bit string: (bytes, declared bit length)
fn embeddings(bits: &[bool]) -> Vec<(Vec<u8>, &'static str)> {
    let n = bits.len();
    let zero = pack(bits);
    let mut one = zero.clone();
    if n % 8 != 0 {
        let last = one.len() - 1;
        one[last] |= 0xFFu8 >> (n % 8);
    }
    let mut long = one.clone();
    long.extend([0xFF, 0xFF]);
    vec![(zero, "zero-padded"), (one, "one-padded"), (long, "followed-by-ff-ff")]
}

pub fn case_json(e: &Entry, input: &Input) -> J {
    json!({"kind": "c04", "module": e.module_id, "def": e.def, "bit_len": input.bits.len(), "bytes_zero_padded": hex(&pack(&input.bits)), "derived": input.how})
}

/// C04 oracle on one input. Returns failures and the outcome fingerprint (for C19).
pub fn check_input(space: &Space, e: &Entry, input: &Input, fails: &mut BTreeMap<String, (u64, Failure)>) -> String {
    let kind = type_kind(space, e);
    let n = input.bits.len();
    let emb = embeddings(&input.bits);
    let outs: Vec<Outcome> = emb.iter().map(|(b, _)| decode(e, b, n)).collect();
    let mut add = |class: String, exp: String, obs: String| {
        let f = Failure { class: class.clone(), case: case_json(e, input), expected: exp, observed: obs };
        let en = fails.entry(class).or_insert((0, f));
        en.0 += 1;
    };
    let o = &outs[0];
    if let Some(p) = o.res.strip_prefix("Panic:") {
        let file = panic_file(p);
        let what = if p.contains("overflow") { "arithmetic-overflow" } else if p.contains("index out of bounds") || p.contains("out of range") { "index-out-of-bounds" } else if p.contains("capacity overflow") { "capacity-overflow" } else if p.contains("Not exhausted") { "debug-assert-scope-not-exhausted" } else if p.contains("unwrap") { "unwrap-on-none" } else { "other" };
        add(format!("panic.{what}.{file}"), "Ok or Err".into(), format!("panic: {p}"));
    }
    if o.pos.is_none() {
        add(format!("accessor-panics-after-read.{kind}"), "bits_remaining()/pos() callable".into(), "panic in accessor".into());
    }
    if o.res.starts_with("Ok:") {
        if let Some(p) = o.pos {
            if p > n {
                add(format!("ok-beyond-declared-length.{kind}"), format!("position <= {n}"), format!("{} with position {p}", truncate(&o.res, 120)));
            }
        }
    }
    // differential: bytes outside the declared length must not influence the outcome
    for (k, other) in outs.iter().enumerate().skip(1) {
        if other.res != o.res || other.pos != o.pos {
            add(
                format!("outcome-depends-on-bytes-beyond-declared-length.{kind}"),
                format!("same outcome as with zero padding: {} pos {:?}", truncate(&o.res, 100), o.pos),
                format!("{}: {} pos {:?}", emb[k].1, truncate(&other.res, 100), other.pos),
            );
            break;
        }
    }
    // a message that was read successfully is not affected by what follows it: the same octets with further
    // octets behind them, and the declared length extended over those, give the same value at the same position.
    // Otherwise the success depended on where the input ended: the reader went on beyond the declared length
    // (a length it had announced itself was not there) and still reported success
    if o.res.starts_with("Ok:") && o.pos.map_or(false, |p| p <= n) {
        for (fill, name) in [(0x00u8, "followed-by-00-00-00"), (0xFFu8, "followed-by-ff-ff-ff")] {
            let mut ext = pack(&input.bits);
            // the declared length ends inside the last octet: the bits behind it belong to the continuation
            if n % 8 != 0 {
                let last = ext.len() - 1;
                if fill == 0xFF {
                    ext[last] |= 0xFFu8 >> (n % 8);
                }
            }
            ext.extend([fill, fill, fill]);
            let longer = decode(e, &ext, ext.len() * 8);
            if longer.res != o.res || longer.pos != o.pos {
                add(
                    format!("success-depends-on-the-end-of-input.{kind}"),
                    format!("{} at position {:?}, whatever follows the message", truncate(&o.res, 100), o.pos),
                    format!("{name} (declared length {}): {} at position {:?}", ext.len() * 8, truncate(&longer.res, 100), longer.pos),
                );
                break;
            }
        }
    }
    let bytes = (n + 7) / 8;
    if o.largest_alloc > (256 << 20) || o.peak_extra > (64 << 20) + 4096 * bytes {
        add(format!("allocation-not-bounded-by-input.{kind}"), format!("largest request <= 256 MiB, peak <= 64 MiB + 4096 x {bytes} input bytes"), format!("largest request {} bytes, peak {} bytes", o.largest_alloc, o.peak_extra));
    }
    format!("{}|{:?}", o.full, o.pos)
}

fn fnv(h: &mut u64, s: &str) {
    for b in s.bytes() {
        *h ^= b as u64;
        *h = h.wrapping_mul(0x100000001b3);
    }
    *h ^= 0xff;
    *h = h.wrapping_mul(0x100000001b3);
}

// ---- driver --------------------------------------------------------------------------------------

fn child(space: &Space, cctx: &vcore::sweep::ChildCtx) -> ! {
    vcore::sweep::limit_address_space(6 << 30);
    let detail = std::env::var("VERIF_DETAIL_BLOCK").ok().and_then(|s| s.parse::<usize>().ok());
    let state = std::cell::RefCell::new((BTreeMap::<String, (u64, Failure)>::new(), Vec::<J>::new(), 0u64, 0u64));
    vcore::sweep::child_loop(
        cctx,
        space.blocks.len(),
        8,
        |idx| {
            if let Some(d) = detail {
                if d != idx {
                    return;
                }
            }
            let b = &space.blocks[idx];
            let e = space.entry_of(b);
            let mut st = state.borrow_mut();
            let mut h = 0xcbf29ce484222325u64;
            let mut n = 0u64;
            let mut oks = 0u64;
            let mut lines = vec![];
            for (k, input) in space.inputs(b).iter().enumerate() {
                if detail.is_some() {
                    // locate mode: announce every case so that a crash is attributed exactly
                    println!("K {k}");
                } else if k % 256 == 255 {
                    // heartbeat: the parent's hang watchdog measures silence, not block duration
                    println!("H");
                }
                let fp = check_input(space, e, input, &mut st.0);
                if fp.starts_with("Ok:") {
                    oks += 1;
                }
                fnv(&mut h, &fp);
                if detail.is_some() {
                    lines.push(fp);
                }
                n += 1;
            }
            st.2 += n;
            st.3 += oks;
            st.1.push(json!({"block": idx, "cases": n, "digest": format!("{h:016x}"), "detail": lines}));
        },
        || {
            let mut st = state.borrow_mut();
            let v = json!({"failures": failures_to_json(&st.0), "blocks": st.1, "cases": st.2, "oks": st.3});
            st.0.clear();
            st.1.clear();
            st.2 = 0;
            st.3 = 0;
            v
        },
    );
}

struct Walk {
    fails: BTreeMap<String, (u64, Failure)>,
    digests: BTreeMap<usize, String>,
    cases: u64,
    oks: u64,
    crashes: Vec<vcore::sweep::Crash>,
}

fn walk(part: &str, exe_env: &[(String, String)]) -> Walk {
    let res = vcore::sweep::sweep(part, vcore::shard::default_shards(), std::time::Duration::from_secs(60), exe_env);
    let mut w = Walk { fails: BTreeMap::new(), digests: BTreeMap::new(), cases: 0, oks: 0, crashes: res.crashes };
    for c in &res.chunks {
        failures_merge_json(&mut w.fails, &c["failures"]);
        w.cases += c["cases"].as_u64().unwrap_or(0);
        w.oks += c["oks"].as_u64().unwrap_or(0);
        for b in c["blocks"].as_array().cloned().unwrap_or_default() {
            w.digests.insert(b["block"].as_u64().unwrap() as usize, b["digest"].as_str().unwrap().to_string());
        }
    }
    w
}

/// re-walk one block announcing every case; returns (index of the case that killed the worker, reason)
fn locate(block: usize) -> Option<(usize, String)> {
    use std::process::{Command, Stdio};
    let exe = std::env::current_exe().ok()?;
    let args: Vec<String> = std::env::args().skip(1).collect();
    let mut c = Command::new(exe)
        .args(&args)
        .env("VERIF_SWEEP", format!("locate|{block}|{}|{block}|", usize::MAX / 2))
        .env("VERIF_DETAIL_BLOCK", block.to_string())
        .stdout(Stdio::piped())
        .stderr(Stdio::null())
        .spawn()
        .ok()?;
    let mut last = None;
    let mut reason = String::new();
    let mut done = false;
    let started = std::time::Instant::now();
    vcore::sweep::lines_until_silent(&mut c, std::time::Duration::from_secs(30), |l| {
        if let Some(k) = l.strip_prefix("K ") {
            last = k.trim().parse::<usize>().ok();
        } else if let Some(a) = l.strip_prefix("A ") {
            reason = format!("allocation request of {} bytes", a.trim());
        } else if l == "D" {
            done = true;
            return false;
        }
        true
    });
    let silent = c.try_wait().ok().flatten().is_none();
    let _ = c.kill();
    let st = c.wait().ok()?;
    if done {
        return None;
    }
    if reason.is_empty() {
        reason = if silent { format!("no answer for 30 s (killed after {} s)", started.elapsed().as_secs()) } else { format!("worker died with {st:?}") };
    }
    last.map(|k| (k, reason))
}

fn run_c04(args: &Args) -> ! {
    let space = Space::new(args.tier);
    if let Some(cctx) = vcore::sweep::child_ctx() {
        child(&space, &cctx);
    }
    let mut report = Report::new(args, "fault_enumeration");
    let mut w = walk("c04", &[]);
    for cr in &w.crashes {
        let b = &space.blocks[cr.index];
        let e = space.entry_of(b);
        let kind = type_kind(&space, e);
        match locate(cr.index) {
            Some((k, reason)) => {
                let input = &space.inputs(b)[k];
                let what = if cr.what.starts_with("hang") { "hang" } else if reason.starts_with("allocation") { "abort-on-huge-allocation" } else { "abort" };
                let f = Failure { class: format!("process-{what}.{kind}"), case: case_json(e, input), expected: "Ok or Err".into(), observed: format!("{} ({reason})", cr.what) };
                let en = w.fails.entry(f.class.clone()).or_insert((0, f));
                en.0 += 1;
            }
            None => {
                let f = Failure { class: format!("process-died-not-reproducible.{kind}"), case: json!({"kind":"c04-block","block":cr.index,"module":e.module_id,"def":e.def}), expected: "Ok or Err".into(), observed: cr.what.clone() };
                let en = w.fails.entry(f.class.clone()).or_insert((0, f));
                en.0 += 1;
            }
        }
    }
    let der = der::explore(args.tier.is_thorough());
    for (k, v) in der.fails {
        w.fails.insert(k, v);
    }
    for (k, (n, f)) in w.fails {
        report.merge(k, n, f);
    }
    if w.cases == 0 || w.oks == 0 {
        machinery_error("C04: vacuous (no case or no successful decode at all)");
    }
    let nall = space.blocks.iter().filter(|b| matches!(b, Block::AllStrings { .. })).count();
    let mut cov = Map::new();
    cov.insert("exhaustive".into(), json!(true));
    cov.insert("evaluations".into(), json!(w.cases * 3 + der.evals));
    cov.insert("distinct_nontrivial".into(), json!(w.cases + der.evals));
    cov.insert("uper".into(), json!({"types": space.types.len(), "all_bit_strings_up_to_bits": if args.tier.is_thorough() {"16 (quick types) / 12 (other types)"} else {"11"}, "all_strings_blocks": nall, "seed_fault_blocks": space.blocks.len() - nall, "inputs": w.cases, "decodes": w.cases * 3, "inputs_that_decode_ok": w.oks, "worker_process_crashes": w.crashes.len()}));
    cov.insert("der".into(), json!({"inputs": der.evals}));
    cov.insert("rule".into(), json!("UPER: for every selected zoo type (a) EVERY bit string of every length 0..L and (b) every single fault (bit flip, truncation to every shorter length, byte deletion, byte insertion 00/FF/80, byte overwrite 00/FF/7F/80/C1/C4; thorough: pairs on seeds <= 48 bits) of up to 5 (10) valid seed encodings is decoded three times - zero padded, one padded, followed by FF FF - in a worker process under RLIMIT_AS with an allocation meter and a hang watchdog. Oracle: no panic, abort or hang; no Ok with a position beyond the declared length; identical outcome for the three embeddings (bytes beyond the declared length must not matter); largest request <= 256 MiB and peak <= 64 MiB + 4096 x input bytes; accessors callable afterwards. DER: every byte string up to 2 (3) bytes through read_identifier/read_length/read_boolean/read_integer/BasicReader. distinct_nontrivial = distinct inputs (each decoded in 3 embeddings)"));
    cov.insert("samples".into(), json!([case_json(space.entry_of(&space.blocks[0]), &Input { bits: vec![true, false, true], how: "all-strings".into() }), match &space.blocks[space.blocks.len() - 1] { Block::Faults { ty, seed, .. } => json!({"type": space.reg[*ty].def, "seed_bits": seed.len(), "seed": hex(&pack(seed)), "first_faults": faults_of(seed).iter().take(3).map(|f| f.how.clone()).collect::<Vec<_>>()}), _ => json!(null) }]));
    report.finish(cov, vec!["the protobuf reader is explored by the C17/C18 engine's fault pass (needs the protobuf feature build)".into(), "thresholds for 'unbounded' are three orders of magnitude above what a <= 64 byte input can legitimately need".into()])
}

fn run_c19(args: &Args) -> ! {
    let space = Space::new(args.tier);
    if let Some(cctx) = vcore::sweep::child_ctx() {
        child(&space, &cctx);
    }
    let mut report = Report::new(args, "exploration");
    let other = std::env::var("VERIF_E_DECODE_OTHER").unwrap_or_else(|_| machinery_error("C19 needs VERIF_E_DECODE_OTHER = path of the e_decode binary built with the descriptive feature"));
    // this process is the feature-OFF build; the other binary walks the same space
    let off = walk("c19", &[]);
    let on_json = std::process::Command::new(&other).args(["C19x", args.tier.as_str()]).output().unwrap_or_else(|e| machinery_error(&format!("cannot run {other}: {e}")));
    let on_txt = String::from_utf8_lossy(&on_json.stdout);
    let line = on_txt.lines().find(|l| l.starts_with("WALK ")).unwrap_or_else(|| machinery_error(&format!("the descriptive build printed no WALK line: {}", truncate(&on_txt, 400))));
    let on: J = serde_json::from_str(&line[5..]).unwrap();
    if on["has_descriptions"].as_u64().unwrap_or(0) == 0 {
        machinery_error("the descriptive build attached no scope description to any error: the comparison would be vacuous");
    }
    let mut fails: BTreeMap<String, (u64, Failure)> = BTreeMap::new();
    let mut differing = vec![];
    for (b, d) in &off.digests {
        let od = on["digests"][b.to_string()].as_str().unwrap_or("<missing>");
        if od != d {
            differing.push(*b);
        }
    }
    // crashes must agree too
    let on_crashes: Vec<usize> = on["crashes"].as_array().map(|a| a.iter().map(|x| x.as_u64().unwrap() as usize).collect()).unwrap_or_default();
    let off_crashes: Vec<usize> = off.crashes.iter().map(|c| c.index).collect();
    for b in on_crashes.iter().filter(|b| !off_crashes.contains(b)).chain(off_crashes.iter().filter(|b| !on_crashes.contains(b))) {
        let e = space.entry_of(&space.blocks[*b]);
        let f = Failure { class: format!("worker-died-in-one-configuration-only.{}", type_kind(&space, e)), case: json!({"kind":"c19-block","block":b,"module":e.module_id,"def":e.def}), expected: "same process outcome in both builds".into(), observed: format!("died with feature {}", if on_crashes.contains(b) { "ON only" } else { "OFF only" }) };
        fails.entry(f.class.clone()).or_insert((0, f)).0 += 1;
    }
    for b in differing.iter().take(40) {
        // re-walk the block case by case in both builds
        let det_off = detail_of(&std::env::current_exe().unwrap().to_string_lossy(), args, *b);
        let det_on = detail_of(&other, args, *b);
        let e = space.entry_of(&space.blocks[*b]);
        let inputs = space.inputs(&space.blocks[*b]);
        let mut found = false;
        for (k, (x, y)) in det_off.iter().zip(det_on.iter()).enumerate() {
            if x != y {
                found = true;
                let (rx, ry) = (x.split('|').next().unwrap_or(""), y.split('|').next().unwrap_or(""));
                let what = if rx.starts_with("Ok") != ry.starts_with("Ok") { "ok-vs-err" } else if rx != ry { if rx.starts_with("Ok") { "different-value" } else { "different-error-kind" } } else { "different-bits-consumed" };
                let f = Failure { class: format!("c19.{what}.{}", type_kind(&space, e)), case: case_json(e, &inputs[k]), expected: format!("feature off: {}", truncate(x, 200)), observed: format!("feature on: {}", truncate(y, 200)) };
                fails.entry(f.class.clone()).or_insert((0, f)).0 += 1;
            }
        }
        if !found {
            let f = Failure { class: "c19.digest-differs-but-detail-equal".into(), case: json!({"block": b}), expected: "".into(), observed: "".into() };
            fails.entry(f.class.clone()).or_insert((0, f)).0 += 1;
        }
    }
    for (k, (n, f)) in fails {
        report.merge(k, n, f);
    }
    if off.cases == 0 {
        machinery_error("C19: vacuous");
    }
    let mut cov = Map::new();
    cov.insert("exhaustive".into(), json!(true));
    cov.insert("evaluations".into(), json!(off.cases * 2));
    cov.insert("distinct_nontrivial".into(), json!(off.cases));
    cov.insert("blocks_compared".into(), json!(off.digests.len()));
    cov.insert("blocks_differing".into(), json!(differing.len()));
    cov.insert("inputs_that_decode_ok".into(), json!(off.oks));
    cov.insert("errors_with_scope_description_in_feature_build".into(), on["has_descriptions"].clone());
    cov.insert("rule".into(), json!("the C04 input space (every bit string <= L bits and every single fault of valid seeds, per zoo type) is walked by two binaries built from the same sources with and without descriptive-deserialize-errors; per block a digest over (Ok value | Err kind, reader position) of every case is compared; a differing block is re-walked case by case in both builds and the first differing inputs are reported. The feature build must attach a non-empty scope description to at least one error (non-vacuity)"));
    cov.insert("samples".into(), json!([{"block": 0, "digest_off": off.digests.get(&0), "digest_on": on["digests"]["0"]}, case_json(space.entry_of(&space.blocks[0]), &Input { bits: vec![true, true, false, true], how: "all-strings".into() })]));
    report.finish(cov, vec!["diagnostics (scope descriptions, error payloads) are ignored by construction: only the ErrorKind variant name, the Debug rendering of an Ok value and the reader position are compared".into()])
}

fn detail_of(exe: &str, args: &Args, block: usize) -> Vec<String> {
    let out = std::process::Command::new(exe)
        .args(["C04", args.tier.as_str()])
        .env("VERIF_SWEEP", format!("detail|{block}|{}|{block}|", usize::MAX / 2))
        .env("VERIF_DETAIL_BLOCK", block.to_string())
        .output();
    let out = match out {
        Ok(o) => o,
        Err(_) => return vec![],
    };
    let txt = String::from_utf8_lossy(&out.stdout);
    for l in txt.lines() {
        if let Some(rest) = l.strip_prefix("C ") {
            if let Some((_, js)) = rest.split_once(' ') {
                if let Ok(v) = serde_json::from_str::<J>(js) {
                    if let Some(b) = v["blocks"].as_array().and_then(|a| a.first()) {
                        return b["detail"].as_array().map(|a| a.iter().map(|x| x.as_str().unwrap_or("").to_string()).collect()).unwrap_or_default();
                    }
                }
            }
        }
    }
    vec![]
}

/// the feature-ON binary: walk and print digests (invoked by the feature-OFF parent)
fn run_c19_other(args: &Args) -> ! {
    let space = Space::new(args.tier);
    if let Some(cctx) = vcore::sweep::child_ctx() {
        child(&space, &cctx);
    }
    let w = walk("c19x", &[]);
    // non-vacuity: does this build attach descriptions?
    #[allow(unused_mut)]
    let mut has = 0u64;
    #[cfg(feature = "descriptive")]
    {
        for &t in space.types.iter().take(40) {
            let e = &space.reg[t];
            let bytes = [0xFFu8, 0xFF];
            let mut r = UperReader::from((&bytes[..], 9));
            if let Ok(Some(true)) = catch(|| e.ops.uper_read_has_description(&mut r)) {
                has += 1;
            }
        }
    }
    let d: BTreeMap<String, String> = w.digests.iter().map(|(k, v)| (k.to_string(), v.clone())).collect();
    println!("WALK {}", json!({"digests": d, "cases": w.cases, "crashes": w.crashes.iter().map(|c| c.index).collect::<Vec<_>>(), "has_descriptions": has}));
    std::process::exit(0)
}

fn replay(case: &J) -> ! {
    let space = Space::new(Tier::Thorough);
    let e = space.reg.iter().find(|e| e.module_id == case["module"].as_str().unwrap_or("") && e.def == case["def"].as_str().unwrap_or("")).unwrap_or_else(|| machinery_error("replay: type not in the compiled zoo"));
    let n = case["bit_len"].as_u64().unwrap() as usize;
    let bytes = unhex(case["bytes_zero_padded"].as_str().unwrap());
    let input = Input { bits: unpack_n(&bytes, n), how: "replay".into() };
    let run = || {
        let mut fails = BTreeMap::new();
        let fp = check_input(&space, e, &input, &mut fails);
        let mut v: Vec<String> = fails.iter().map(|(k, (_, f)): (&String, &(u64, Failure))| format!("FAIL {k} expected[{}] observed[{}]", f.expected, f.observed)).collect();
        v.push(format!("outcome: {}", truncate(&fp, 300)));
        v
    };
    let a = run();
    if a != run() {
        machinery_error("replay not deterministic");
    }
    println!("{}", a.join("\n"));
    std::process::exit(if a.iter().any(|l| l.starts_with("FAIL")) { 1 } else { 0 })
}

fn main() {
    let args = parse_args();
    install_quiet_panic_hook();
    if let Some(p) = &args.replay {
        let c = load_replay(p);
        if c["kind"] == "der" {
            der::replay(&c);
        }
        replay(&c);
    }
    match args.property.as_str() {
        "C04" => run_c04(&args),
        "C19" => run_c19(&args),
        "C19x" => run_c19_other(&args),
        p => machinery_error(&format!("e_decode does not serve {p}")),
    }
}

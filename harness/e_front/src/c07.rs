//! C07 — parsing preserves every declared element of a module:
//! project(resolve(parse(print(A)))) == normalize(A) for every abstract module A of grammar F.

use crate::project::{normalize, project};
use asn1rs_model::parse::Tokenizer;
use asn1rs_model::Model;
use rayon::prelude::*;
use serde_json::{json, Map, Value as J};
use std::collections::BTreeMap;
use vcore::report::*;
use vcore::schema::*;
use vcore::zoo_def::{enum_forms, int_forms, size_forms};

/// leaf types of grammar F with a label and (if one exists) a DEFAULT literal
pub fn leafs() -> Vec<(String, Ty, Option<Lit>)> {
    let mut v: Vec<(String, Ty, Option<Lit>)> = vec![("bool".into(), Ty::Bool, Some(Lit::Bool(true))), ("null".into(), Ty::Null, None)];
    for (n, r, _) in int_forms() {
        let d = match &r {
            None => Some(Lit::Int(1500)),
            Some(r) => Some(Lit::Int(r.lb().unwrap_or(r.ub().unwrap_or(0).min(0)).max(r.lb().unwrap_or(i64::MIN)))),
        };
        v.push((format!("int-{n}"), Ty::Int { range: r, named: vec![] }, d));
    }
    // extensible forms whose root is open on one or both sides (front end and generator only: not compiled into the zoo)
    for (n, lo, hi) in [("xo0", Bound::Lit(0), Bound::Max), ("xo1", Bound::Min, Bound::Max), ("xo2", Bound::Min, Bound::Lit(5)), ("xo3", Bound::Lit(0), Bound::Lit(i64::MAX)), ("xo4", Bound::Lit(-1), Bound::Max)] {
        v.push((format!("int-{n}"), Ty::Int { range: Some(IntRange { lo, hi, ext: true }), named: vec![] }, Some(Lit::Int(3))));
    }
    v.push(("int-named".into(), Ty::Int { range: Some(IntRange::lit(0, 3)), named: vec![("low".into(), 0), ("high".into(), 3)] }, Some(Lit::Int(2))));
    v.push(("int-named-unconstrained".into(), Ty::Int { range: None, named: vec![("neg".into(), -5), ("big".into(), 70000)] }, None));
    for (n, t, _) in enum_forms() {
        let d = if let Ty::Enum { root, .. } = &t { Some(Lit::Enum(root[0].0.clone())) } else { None };
        // a DEFAULT naming an item of an INLINE enumeration is not expressible through a reference: no default
        let _ = d;
        v.push((format!("enum-{n}"), t, None));
    }
    // extensible SIZE constraints whose root has no upper bound (front end and generator only: not compiled into the zoo)
    for (sn, size) in [("xs0", Size::Range(0, None, true)), ("xs2", Size::Range(2, None, true))] {
        for paren in [true, false] {
            let p = if paren { "p" } else { "np" };
            v.push((format!("oct-{sn}-{p}"), Ty::OctStr { size, paren }, None));
            v.push((format!("utf8string-{sn}-{p}"), Ty::Str { cs: Charset::Utf8, size, paren }, None));
        }
    }
    for (sn, size, _) in size_forms() {
        for paren in [true, false] {
            if size == Size::Any && !paren {
                continue;
            }
            let p = if paren { "p" } else { "np" };
            v.push((format!("oct-{sn}-{p}"), Ty::OctStr { size, paren }, None));
            v.push((format!("bit-{sn}-{p}"), Ty::BitStr { size, named: vec![], paren }, None));
            for cs in Charset::all() {
                v.push((format!("{}-{sn}-{p}", cs.asn().to_lowercase()), Ty::Str { cs, size, paren }, if size.contains(2) { Some(Lit::Str("ab".into())) } else { None }));
            }
        }
    }
    v.push(("bit-named".into(), Ty::BitStr { size: Size::Fix(2, false), named: vec![("first".into(), 0), ("second".into(), 1)], paren: true }, None));
    v.push(("ref".into(), Ty::r("Other"), None));
    v
}

pub fn tags() -> Vec<Option<Tag>> {
    vec![None, Some(Tag::c(3)), Some(Tag::u(7)), Some(Tag::a(1)), Some(Tag::p(2))]
}

#[derive(Clone, Debug)]
pub struct Case {
    pub label: String,
    pub module: Module,
}

fn other() -> Def {
    Def { name: "Other".into(), tag: None, ty: Ty::Bool }
}

fn wrap(label: String, defs: Vec<Def>) -> Case {
    let mut m = Module::new("Gen");
    m.defs = defs;
    m.defs.push(other());
    Case { label, module: m }
}

pub fn contexts(leaf: &(String, Ty, Option<Lit>), tag: Option<Tag>) -> Vec<Case> {
    let (ln, lt, dflt) = leaf;
    let t = tag.map(|t| t.asn()).unwrap_or_else(|| "untagged".into());
    let comp = |p: Presence| Comp { name: "a".into(), tag, ty: lt.clone(), presence: p };
    let mut out = vec![];
    let mut push = |ctx: &str, ty: Ty, def_tag: Option<Tag>| out.push(wrap(format!("{ctx}/{ln}/{t}"), vec![Def { name: "T".into(), tag: def_tag, ty }]));
    push("top-level", lt.clone(), tag);
    push("sequence-mandatory", Ty::seq(vec![comp(Presence::Mandatory), Comp::new("z", Ty::Bool)]), None);
    push("sequence-optional", Ty::seq(vec![Comp::new("z", Ty::Bool), comp(Presence::Optional)]), None);
    if let Some(d) = dflt {
        push("sequence-default", Ty::seq(vec![comp(Presence::Default(d.clone()))]), None);
    }
    push("set-component", Ty::Seq { set: true, comps: vec![comp(Presence::Mandatory), Comp::new("z", Ty::Null).opt()], ext_after: None }, None);
    push("choice-alternative", Ty::choice(vec![Alt { name: "a".into(), tag, ty: lt.clone() }, Alt::new("z", Ty::Bool)]), None);
    push("choice-extension-alternative", Ty::Choice { alts: vec![Alt::new("z", Ty::Bool), Alt { name: "a".into(), tag, ty: lt.clone() }], ext_after: Some(1) }, None);
    push("extension-addition", Ty::Seq { set: false, comps: vec![Comp::new("z", Ty::Bool), comp(Presence::Mandatory), Comp::new("y", Ty::Null).opt()], ext_after: Some(1) }, None);
    push("marker-after-last", Ty::Seq { set: false, comps: vec![comp(Presence::Mandatory)], ext_after: Some(1) }, None);
    push("marker-before-first", Ty::Seq { set: false, comps: vec![comp(Presence::Mandatory), Comp::new("z", Ty::Bool)], ext_after: Some(0) }, None);
    push("inline-in-inline", Ty::seq(vec![Comp::new("o", Ty::seq(vec![comp(Presence::Optional)])), Comp::new("c", Ty::choice(vec![Alt { name: "a".into(), tag, ty: lt.clone() }]))]), None);
    if tag.is_none() {
        // element types carry no tag in the supported subset
        for (sn, size, _) in size_forms() {
            for set in [false, true] {
                for paren in [true, false] {
                    if size == Size::Any && !paren {
                        continue;
                    }
                    push(&format!("{}-of-{sn}-{}", if set { "set" } else { "sequence" }, if paren { "p" } else { "np" }), Ty::SeqOf { set, size, paren, inner: Box::new(lt.clone()) }, None);
                }
            }
        }
    }
    out
}

pub fn module_level_cases() -> Vec<Case> {
    let mut out = vec![];
    let base = |name: &str| {
        let mut m = Module::new(name);
        m.defs = vec![Def { name: "T".into(), tag: None, ty: Ty::seq(vec![Comp::new("a", Ty::int_r(0, 7))]) }];
        m
    };
    // OID component forms
    let oids: Vec<Vec<OidComp>> = vec![
        vec![OidComp::Number(1)],
        vec![OidComp::Name("iso".into())],
        vec![OidComp::NameNumber("iso".into(), 1)],
        vec![OidComp::Name("iso".into()), OidComp::NameNumber("member-body".into(), 2), OidComp::Number(840), OidComp::NameNumber("x".into(), 0)],
        vec![OidComp::Number(0), OidComp::Number(4), OidComp::Number(0), OidComp::Number(5)],
    ];
    for (i, o) in oids.iter().enumerate() {
        let mut m = base("WithOid");
        m.oid = Some(o.clone());
        out.push(Case { label: format!("module-oid-{i}"), module: m });
        let mut m = base("Importer");
        m.imports = vec![Import { what: vec!["A".into()], from: "Lib".into(), from_oid: Some(o.clone()) }];
        out.push(Case { label: format!("import-with-oid-{i}"), module: m });
    }
    let mut m = base("Importer");
    m.imports = vec![Import { what: vec!["A".into(), "b-value".into(), "C".into()], from: "Lib".into(), from_oid: None }, Import { what: vec!["D".into()], from: "Other-Lib".into(), from_oid: Some(oids[3].clone()) }, Import { what: vec!["E".into()], from: "Third".into(), from_oid: None }];
    out.push(Case { label: "imports-multiple".into(), module: m });
    // module names incl. the documented suffix stripping
    for n in ["Plain", "MyModule", "My_Module", "Module", "ModuleX", "A-B"] {
        out.push(Case { label: format!("module-name-{n}"), module: base(n) });
    }
    // value definitions of every literal kind
    let vals: Vec<(Ty, Lit)> = vec![
        (Ty::int(), Lit::Int(0)),
        (Ty::int(), Lit::Int(-5)),
        (Ty::int(), Lit::Int(i64::MAX)),
        (Ty::int(), Lit::Int(i64::MIN)),
        (Ty::int_r(0, 255), Lit::Int(42)),
        (Ty::Bool, Lit::Bool(true)),
        (Ty::Bool, Lit::Bool(false)),
        (Ty::string(Charset::Utf8, Size::Any), Lit::Str("hello".into())),
        (Ty::string(Charset::Utf8, Size::Any), Lit::Str("a b  c".into())),
        (Ty::string(Charset::Utf8, Size::Any), Lit::Str("x,y{z}".into())),
        (Ty::string(Charset::Utf8, Size::Any), Lit::Str("".into())),
        // blanks and punctuation at the edges of a character string belong to the string
        (Ty::string(Charset::Utf8, Size::Any), Lit::Str(" lead".into())),
        (Ty::string(Charset::Utf8, Size::Any), Lit::Str("trail  ".into())),
        (Ty::string(Charset::Utf8, Size::Any), Lit::Str("(abc) d".into())),
        (Ty::string(Charset::Utf8, Size::Any), Lit::Str(":x,".into())),
        (Ty::string(Charset::Utf8, Size::Any), Lit::Str(" ".into())),
        (Ty::string(Charset::Utf8, Size::Any), Lit::Str("{ [ ] }".into())),
        // X.680 12.6: nothing within a cstring starts or ends a comment
        (Ty::string(Charset::Utf8, Size::Any), Lit::Str("a--b".into())),
        (Ty::string(Charset::Utf8, Size::Any), Lit::Str("-- x".into())),
        (Ty::string(Charset::Utf8, Size::Any), Lit::Str("a /* b".into())),
        (Ty::string(Charset::Utf8, Size::Any), Lit::Str("a */ b".into())),
        (Ty::string(Charset::Utf8, Size::Any), Lit::Str("/* x */".into())),
        (Ty::string(Charset::Ia5, Size::Any), Lit::Str("ia5".into())),
        (Ty::string(Charset::Numeric, Size::Any), Lit::Str("12 3".into())),
        (Ty::string(Charset::Printable, Size::Any), Lit::Str("Pr-1".into())),
        (Ty::string(Charset::Visible, Size::Any), Lit::Str("vis".into())),
        (Ty::oct(Size::Any), Lit::Hex(vec![0xAB, 0xCD])),
        (Ty::oct(Size::Any), Lit::Hex(vec![])),
        (Ty::oct(Size::Any), Lit::Hex(vec![0x00, 0x01, 0xFF])),
    ];
    for (i, (t, l)) in vals.into_iter().enumerate() {
        let mut m = base("Values");
        m.values = vec![ValueDef { name: format!("val-{i}"), ty: t, value: l }];
        out.push(Case { label: format!("value-definition-{i}"), module: m });
    }
    // DEFAULT literals of each kind
    let dfl: Vec<(Ty, Lit)> = vec![
        (Ty::int_r(-5, 5), Lit::Int(-3)),
        (Ty::int(), Lit::Int(0)),
        (Ty::Bool, Lit::Bool(false)),
        (Ty::string(Charset::Utf8, Size::Any), Lit::Str("hi there".into())),
        (Ty::string(Charset::Utf8, Size::Any), Lit::Str(" (x) ".into())),
        (Ty::string(Charset::Utf8, Size::Any), Lit::Str("a--b /*c".into())),
        (Ty::string(Charset::Ia5, Size::Range(0, Some(9), false)), Lit::Str("x".into())),
        (Ty::oct(Size::Any), Lit::Hex(vec![0xDE, 0xAD])),
        (Ty::r("Colour"), Lit::Enum("green".into())),
    ];
    for (i, (t, l)) in dfl.into_iter().enumerate() {
        let mut m = Module::new("Defaults");
        m.defs = vec![Def { name: "Colour".into(), tag: None, ty: Ty::Enum { root: vec![("red".into(), None), ("green".into(), None)], ext: None } }, Def { name: "T".into(), tag: None, ty: Ty::seq(vec![Comp::new("d", t).default(l)]) }];
        out.push(Case { label: format!("default-literal-{i}"), module: m });
    }
    // definition order and many definitions
    let mut m = Module::new("Order");
    for n in ["Zeta", "Alpha", "Mid", "Beta", "Omega"] {
        m.defs.push(Def { name: n.into(), tag: None, ty: Ty::int_r(0, 7) });
    }
    out.push(Case { label: "definition-order".into(), module: m });
    out
}

pub fn depth2_cases() -> Vec<Case> {
    // container x container x a handful of leafs
    let leafs: Vec<Ty> = vec![Ty::Bool, Ty::int_r(-5, 5), Ty::int_range(IntRange::lit(0, 7).ext()), Ty::oct(Size::Range(1, Some(4), true)), Ty::string(Charset::Ia5, Size::Fix(3, false)), Ty::enum_n(2), Ty::r("Other")];
    type Mk = fn(Ty) -> Ty;
    let containers: Vec<(&str, Mk)> = vec![
        ("seq", |t| Ty::seq(vec![Comp::new("x", t), Comp::new("y", Ty::Null).opt()])),
        ("seqx", |t| Ty::Seq { set: false, comps: vec![Comp::new("r", Ty::Bool), Comp::new("x", t)], ext_after: Some(1) }),
        ("set", |t| Ty::Seq { set: true, comps: vec![Comp::new("x", t).opt()], ext_after: None }),
        ("seqof", |t| Ty::seq_of(Size::Range(0, Some(3), false), t)),
        ("setof", |t| Ty::set_of(Size::Fix(2, true), t)),
        ("choice", |t| Ty::choice(vec![Alt::new("p", Ty::Null), Alt::new("q", t)])),
        ("choicex", |t| Ty::Choice { alts: vec![Alt::new("p", Ty::Null), Alt::new("q", t)], ext_after: Some(1) }),
    ];
    let mut out = vec![];
    for (on, oc) in &containers {
        for (inn, ic) in &containers {
            for (li, l) in leafs.iter().enumerate() {
                out.push(wrap(format!("depth2/{on}/{inn}/leaf{li}"), vec![Def { name: "T".into(), tag: None, ty: oc(ic(l.clone())) }]));
            }
        }
    }
    out
}

pub fn space(thorough: bool) -> Vec<Case> {
    let mut out = vec![];
    let ls = leafs();
    for (i, l) in ls.iter().enumerate() {
        for t in tags() {
            // quick: every leaf untagged, every 4th leaf with every tag
            if !thorough && t.is_some() && i % 4 != 0 {
                continue;
            }
            out.extend(contexts(l, t));
        }
    }
    // an explicit tag that equals the universal tag the type has anyway ([UNIVERSAL 2] INTEGER) is still an explicit tag:
    // one leaf of every builtin kind
    let mut kinds_seen = std::collections::BTreeSet::new();
    for l in ls.iter() {
        if matches!(l.1, Ty::Ref(_)) {
            continue;
        }
        let own = vcore::refper::universal_tag(&Module::new("X"), &l.1);
        if kinds_seen.insert(own) {
            let mut cs = contexts(l, Some(own));
            for c in cs.iter_mut() {
                c.label = format!("own-universal-tag/{}", c.label);
            }
            out.extend(cs);
        }
    }
    out.extend(module_level_cases());
    out.extend(depth2_cases());
    out
}

fn first_difference(a: &Module, b: &Module) -> String {
    if a.name != b.name {
        return "module-name".into();
    }
    if a.oid != b.oid {
        return "module-oid".into();
    }
    if a.imports != b.imports {
        return "imports".into();
    }
    if a.values != b.values {
        return "value-definitions".into();
    }
    if a.defs.len() != b.defs.len() || a.defs.iter().zip(b.defs.iter()).any(|(x, y)| x.name != y.name) {
        return "definition-list".into();
    }
    for (x, y) in a.defs.iter().zip(b.defs.iter()) {
        if x.tag != y.tag {
            return "definition-tag".into();
        }
        if x.ty != y.ty {
            return ty_difference(&x.ty, &y.ty);
        }
    }
    "unknown".into()
}

fn ty_difference(a: &Ty, b: &Ty) -> String {
    match (a, b) {
        (Ty::Int { range: ra, named: na }, Ty::Int { range: rb, named: nb }) => {
            if na != nb {
                "integer-named-numbers".into()
            } else {
                format!("integer-range.expected-{}.got-{}", range_class(ra), range_class(rb))
            }
        }
        (Ty::Enum { .. }, Ty::Enum { .. }) => "enumerated".into(),
        (Ty::BitStr { size: sa, named: na, .. }, Ty::BitStr { size: sb, named: nb, .. }) => if na != nb { "bitstring-named-bits".into() } else { format!("size.{}", size_diff(sa, sb)) },
        (Ty::OctStr { size: sa, .. }, Ty::OctStr { size: sb, .. }) | (Ty::Str { size: sa, .. }, Ty::Str { size: sb, .. }) => format!("size.{}", size_diff(sa, sb)),
        (Ty::Seq { comps: ca, ext_after: ea, set: sa }, Ty::Seq { comps: cb, ext_after: eb, set: sb }) => {
            if sa != sb {
                return "sequence-vs-set".into();
            }
            if ea != eb {
                return format!("extension-marker-position.expected-{}.got-{}", marker_class(ea, ca.len()), marker_class(eb, cb.len()));
            }
            if ca.len() != cb.len() {
                return "component-count".into();
            }
            for (x, y) in ca.iter().zip(cb.iter()) {
                if x.name != y.name {
                    return "component-name".into();
                }
                if x.tag != y.tag {
                    return "component-tag".into();
                }
                if x.presence != y.presence {
                    return "component-presence".into();
                }
                if x.ty != y.ty {
                    return ty_difference(&x.ty, &y.ty);
                }
            }
            "sequence".into()
        }
        (Ty::SeqOf { size: sa, inner: ia, set: xa, .. }, Ty::SeqOf { size: sb, inner: ib, set: xb, .. }) => {
            if xa != xb {
                "sequence-of-vs-set-of".into()
            } else if sa != sb {
                format!("size.{}", size_diff(sa, sb))
            } else {
                ty_difference(ia, ib)
            }
        }
        (Ty::Choice { alts: aa, ext_after: ea }, Ty::Choice { alts: ab, ext_after: eb }) => {
            if ea != eb {
                return "choice-extension-marker".into();
            }
            for (x, y) in aa.iter().zip(ab.iter()) {
                if x.name != y.name || x.tag != y.tag {
                    return "alternative-name-or-tag".into();
                }
                if x.ty != y.ty {
                    return ty_difference(&x.ty, &y.ty);
                }
            }
            "choice".into()
        }
        _ => "type-kind".into(),
    }
}

fn range_class(r: &Option<IntRange>) -> String {
    match r {
        None => "none".into(),
        Some(r) => format!("{}-{}{}", match r.lo { Bound::Min => "MIN".to_string(), Bound::Lit(0) => "0".into(), Bound::Lit(_) => "lit".into(), Bound::Max => "MAX".into() }, match r.hi { Bound::Max => "MAX".to_string(), Bound::Lit(i64::MAX) => "i64max".into(), Bound::Lit(_) => "lit".into(), Bound::Min => "MIN".into() }, if r.ext { "-ext" } else { "" }),
    }
}

fn marker_class(e: &Option<usize>, n: usize) -> String {
    match e {
        None => "none".into(),
        Some(0) => "before-first".into(),
        Some(k) if *k == n => "after-last".into(),
        Some(_) => "inside".into(),
    }
}

fn size_diff(a: &Size, b: &Size) -> String {
    let c = |s: &Size| match s {
        Size::Any => "any".to_string(),
        Size::Fix(_, e) => format!("fix{}", if *e { "-ext" } else { "" }),
        Size::Range(_, None, e) => format!("to-max{}", if *e { "-ext" } else { "" }),
        Size::Range(_, Some(_), e) => format!("range{}", if *e { "-ext" } else { "" }),
    };
    format!("expected-{}.got-{}", c(a), c(b))
}

pub const LAYOUTS: [&str; 3] = ["compact", "one-item-per-line", "commented"];

pub fn check(c: &Case, layout: usize) -> Option<Failure> {
    let mut text = c.module.asn();
    let layout_lines = layout == 1;
    if layout == 1 {
        // second pretty-printing: one lexical item per line
        text = crate::lex::items(&text).join("\n");
    } else if layout == 2 {
        // third pretty-printing: comments of several styles between the items
        let seps = [" ", "\n", " /** banner **/ ", " -- line comment\n", "/***/", " /* a /* nested */ b */ ", "\t", " /* multi\n line */\n", "  ", " /* closed on a line that starts with dashes\n-- still the block comment */ ", " /* a\n-- /* nested, opened behind dashes */ b\n*/ "];
        let items = crate::lex::items(&text);
        let mut t = String::from("-- header comment\n/* block at the start */ ");
        for (k, it) in items.iter().enumerate() {
            t.push_str(it);
            let s = seps[k % seps.len()];
            // the empty comment /***/ touches both neighbours: only where they stay distinct items
            if s == "/***/" && k + 1 < items.len() && !crate::lex::may_touch(it, &items[k + 1]) {
                t.push(' ');
            }
            t.push_str(s);
        }
        t.push_str("\n-- trailing comment");
        text = t;
    }
    let expected = normalize(&c.module);
    let ctx = c.label.split('/').next().unwrap_or("").to_string();
    let _ = layout_lines;
    let case = || json!({"kind": "c07", "label": c.label, "layout": LAYOUTS[layout], "asn": text});
    let mk = |kind: String, e: String, o: String| Some(Failure { class: format!("c07.{kind}"), case: case(), expected: e, observed: o });
    let r = catch(|| Model::try_from(Tokenizer.parse(&text)).map_err(|e| format!("parse error: {e:?}")).and_then(|m| m.try_resolve().map_err(|e| format!("resolve error: {e:?}"))));
    match r {
        Err(p) => mk(format!("front-end-panic.{ctx}"), "model".into(), format!("panic: {p}")),
        Ok(Err(e)) => {
            // imports cannot be resolved in a single module: only the parse is checked for those cases
            if e.starts_with("resolve error") && !c.module.imports.is_empty() {
                let parsed = catch(|| Model::try_from(Tokenizer.parse(&text)).map(|m| (m.name.clone(), m.imports.clone(), m.oid.clone())));
                return match parsed {
                    Ok(Ok((name, imports, oid))) => {
                        let got_imports: Vec<Import> = imports.iter().map(|i| Import { what: i.what.clone(), from: i.from.clone(), from_oid: i.from_oid.as_ref().map(|o| project_oid(o)) }).collect();
                        if name != expected.name || got_imports != expected.imports || oid.as_ref().map(|o| project_oid(o)) != expected.oid {
                            mk("imports-or-header".into(), format!("{:?} {:?}", expected.name, expected.imports), format!("{name:?} {got_imports:?}"))
                        } else {
                            None
                        }
                    }
                    _ => mk(format!("rejected-supported-module.{ctx}"), "Ok".into(), truncate(&e, 200)),
                };
            }
            mk(format!("rejected-supported-module.{ctx}"), "Ok".into(), truncate(&e, 200))
        }
        Ok(Ok(m)) => {
            let got = project(&m);
            if got == expected {
                None
            } else {
                mk(first_difference(&expected, &got), truncate(&format!("{:?}", expected.defs.first().map(|d| d.ty.asn())), 240), truncate(&format!("{:?}", got.defs.first().map(|d| d.ty.asn())), 240))
            }
        }
    }
}

fn project_oid(o: &asn1rs_model::asn::ObjectIdentifier) -> Vec<OidComp> {
    use asn1rs_model::asn::ObjectIdentifierComponent as C;
    o.iter()
        .map(|c| match c {
            C::NameForm(n) => OidComp::Name(n.clone()),
            C::NumberForm(n) => OidComp::Number(*n),
            C::NameAndNumberForm(n, v) => OidComp::NameNumber(n.clone(), *v),
        })
        .collect()
}

pub fn run(args: &Args) -> ! {
    let mut report = Report::new(args, "model_checking");
    let sp = space(args.tier.is_thorough());
    let fails: Vec<Vec<Failure>> = sp.par_iter().map(|c| (0..LAYOUTS.len()).filter_map(|l| check(c, l)).collect()).collect();
    let mut agg: BTreeMap<String, (u64, Failure)> = BTreeMap::new();
    for f in fails.into_iter().flatten() {
        agg.entry(f.class.clone()).or_insert((0, f)).0 += 1;
    }
    for (k, (n, f)) in agg {
        report.merge(k, n, f);
    }
    let n = sp.len() as u64;
    let mut cov = Map::new();
    cov.insert("exhaustive".into(), json!(true));
    cov.insert("evaluations".into(), json!(n * 3));
    cov.insert("distinct_nontrivial".into(), json!(n));
    cov.insert("states".into(), json!(n));
    cov.insert("transitions".into(), json!(n * 3));
    cov.insert("traces_validated_against_impl".into(), json!(n * 3));
    cov.insert("leaf_forms".into(), json!(leafs().len()));
    cov.insert("rule".into(), json!("grammar F: every leaf form (every INTEGER bound class, ENUMERATED form, SIZE form x {BIT/OCTET STRING, five string types} in both SIZE spellings, named numbers/bits, type reference) x tag {none, [3], [UNIVERSAL 7], [APPLICATION 1], [PRIVATE 2]} x context {top level, SEQUENCE mandatory / OPTIONAL / DEFAULT, SET component, CHOICE root / extension alternative, extension addition, marker after last, marker before first, inline in inline SEQUENCE/CHOICE, SEQUENCE OF / SET OF with every SIZE form and spelling}; plus module OIDs in all component forms, imports with/without OID, module names, value definitions and DEFAULT literals of every kind, definition order, and all depth-2 nestings of 7 containers over 7 leafs. Each module is printed in three layouts (compact; one lexical item per line; with line, block, nested, banner-style and empty comments between the items) and parsed+resolved by the real front end; its projection (public fields only) must equal the abstract module after the documented normalisations (SIZE(n..n) = SIZE(n), SIZE(0..MAX) = none, (MIN..MAX) = none, SIZE spelling, module-name suffix stripping). non-trivial: every module; all distinct"));
    cov.insert("samples".into(), json!([sp[17].module.asn(), sp[sp.len() / 2].label]));
    report.finish(cov, vec!["the projection reads only public fields/accessors of the subject's model".into(), "quick: tagged variants for every 4th leaf form only".into()])
}

pub fn replay(case: &J) -> ! {
    let label = case["label"].as_str().unwrap_or("");
    let sp = space(true);
    let c = sp.iter().find(|c| c.label == label).unwrap_or_else(|| machinery_error("replay: unknown case label"));
    let lines = LAYOUTS.iter().position(|l| case["layout"] == *l).unwrap_or(0);
    match check(c, lines) {
        None => {
            println!("ok");
            std::process::exit(0)
        }
        Some(f) => {
            println!("FAIL {} expected[{}] observed[{}]", f.class, f.expected, f.observed);
            std::process::exit(1)
        }
    }
}

//! C12 — value references and imports resolve exactly like the literals they name.
//! E-dev on the number of literal sites replaced by references; every placement of the value
//! definitions; every load order of the modules.

use crate::project::project;
use asn1rs_model::asn::MultiModuleResolver;
use asn1rs_model::parse::Tokenizer;
use asn1rs_model::Model;
use serde_json::{json, Map, Value as J};
use std::collections::BTreeMap;
use vcore::report::*;

#[derive(Clone, Debug)]
pub struct Site {
    /// literal text at the site
    pub lit: &'static str,
    /// ASN.1 type of a value definition that can stand for it
    pub vtype: &'static str,
    pub kind: &'static str,
}

#[derive(Clone, Debug)]
pub struct Base {
    pub name: &'static str,
    /// definition body with {0} {1} .. placeholders
    pub template: &'static str,
    pub sites: Vec<Site>,
}

fn int(l: &'static str, kind: &'static str) -> Site {
    Site { lit: l, vtype: "INTEGER", kind }
}

pub fn bases() -> Vec<Base> {
    vec![
        Base { name: "int-range", template: "T ::= INTEGER ({0}..{1})", sites: vec![int("-5", "range-lower"), int("200", "range-upper")] },
        Base { name: "int-range-zero", template: "T ::= INTEGER ({0}..{1})", sites: vec![int("0", "range-lower-zero"), int("255", "range-upper")] },
        Base { name: "int-range-ext", template: "T ::= INTEGER ({0}..{1},...)", sites: vec![int("1", "range-lower"), int("7", "range-upper")] },
        Base { name: "int-lower-to-max", template: "T ::= INTEGER ({0}..MAX)", sites: vec![int("3", "range-lower")] },
        Base { name: "int-zero-to-max", template: "T ::= INTEGER ({0}..MAX)", sites: vec![int("0", "range-lower-zero-with-max")] },
        // the forms that are folded to "no bound" keep their extension marker
        Base { name: "int-zero-to-max-ext", template: "T ::= INTEGER ({0}..MAX,...)", sites: vec![int("0", "range-lower-zero-with-max")] },
        Base { name: "int-min-to-i64max-ext", template: "T ::= INTEGER (MIN..{0},...)", sites: vec![int("9223372036854775807", "range-upper-i64max")] },
        Base { name: "int-min-to-i64max", template: "T ::= INTEGER (MIN..{0})", sites: vec![int("9223372036854775807", "range-upper-i64max")] },
        Base { name: "int-zero-to-i64max-ext", template: "T ::= INTEGER ({0}..{1},...)", sites: vec![int("0", "range-lower-zero"), int("9223372036854775807", "range-upper-i64max")] },
        Base { name: "int-lower-to-max-ext", template: "T ::= INTEGER ({0}..MAX,...)", sites: vec![int("3", "range-lower")] },
        Base { name: "int-min-to-upper-ext", template: "T ::= INTEGER (MIN..{0},...)", sites: vec![int("9", "range-upper")] },
        Base { name: "int-min-to-upper", template: "T ::= INTEGER (MIN..{0})", sites: vec![int("9", "range-upper")] },
        Base { name: "int-upper-i64max", template: "T ::= INTEGER ({0}..{1})", sites: vec![int("1", "range-lower"), int("9223372036854775807", "range-upper-i64max")] },
        // a component of a type that no loaded module defines (imported from a module that is not part of the
        // conversion): its DEFAULT and its neighbours resolve like the literals all the same
        Base { name: "default-of-unknown-type", template: "T ::= SEQUENCE { prio Priority DEFAULT {0}, n INTEGER (0..{1}) DEFAULT {2}, s Label OPTIONAL }", sites: vec![int("3", "default-integer"), int("9", "range-upper"), int("4", "default-integer")] },
        Base { name: "size-range", template: "T ::= OCTET STRING (SIZE({0}..{1}))", sites: vec![int("1", "size-lower"), int("4", "size-upper")] },
        Base { name: "size-range-zero", template: "T ::= IA5String (SIZE({0}..{1}))", sites: vec![int("0", "size-lower-zero"), int("9", "size-upper")] },
        Base { name: "size-range-equal", template: "T ::= UTF8String (SIZE({0}..{1}))", sites: vec![int("6", "size-lower-equal"), int("6", "size-upper-equal")] },
        Base { name: "size-range-ext", template: "T ::= BIT STRING (SIZE({0}..{1},...))", sites: vec![int("2", "size-lower"), int("8", "size-upper")] },
        Base { name: "size-fixed", template: "T ::= OCTET STRING (SIZE({0}))", sites: vec![int("3", "size-fixed")] },
        Base { name: "size-fixed-ext", template: "T ::= NumericString (SIZE({0},...))", sites: vec![int("3", "size-fixed")] },
        Base { name: "size-to-max", template: "T ::= SEQUENCE (SIZE({0}..MAX)) OF BOOLEAN", sites: vec![int("2", "size-lower")] },
        Base { name: "size-zero-to-max", template: "T ::= SEQUENCE (SIZE({0}..MAX)) OF BOOLEAN", sites: vec![int("0", "size-lower-zero-with-max")] },
        Base { name: "seqof-size-no-paren", template: "T ::= SET SIZE({0}..{1}) OF INTEGER (0..7)", sites: vec![int("1", "size-lower"), int("3", "size-upper")] },
        Base {
            name: "defaults",
            template: "T ::= SEQUENCE { a INTEGER (0..255) DEFAULT {0}, b BOOLEAN DEFAULT {1}, c UTF8String DEFAULT {2} }",
            sites: vec![int("42", "default-integer"), Site { lit: "TRUE", vtype: "BOOLEAN", kind: "default-boolean" }, Site { lit: "\"hi\"", vtype: "UTF8String", kind: "default-string" }],
        },
        Base {
            name: "nested",
            template: "T ::= SEQUENCE { x SEQUENCE (SIZE({0})) OF INTEGER ({1}..{2}), y CHOICE { p IA5String (SIZE({3}..{4})), q NULL } }",
            sites: vec![int("2", "size-fixed"), int("-1", "range-lower"), int("1", "range-upper"), int("1", "size-lower"), int("5", "size-upper")],
        },
    ]
}

#[derive(Clone, Copy, Debug, PartialEq)]
pub enum Placement {
    LocalBefore,
    LocalAfter,
    SiblingByName,
    SiblingByOid,
    SiblingByOidWithDecoy,
    LocalShadowsImported,
    /// the import spells the sibling's object identifier differently ({ iso(1) two(2) 3 } vs { 1 2 3 }): matched by name
    SiblingByNameWithDifferentlySpelledOid,
    /// imported by name while an unrelated module (other name, no OID) defines the same names with other values
    SiblingByNameWithUnrelatedModule,
    /// imported by an OID written with name-only components ({ iso standard 4242 }) while a module of another name,
    /// whose OID differs in the name-only components only ({ itu-t recommendation 4242 }), defines other values
    SiblingByNameFormOidWithDecoy,
    /// imported by OID { 1 2 3 } while modules with the OIDs { 1 2 } and { 1 2 3 4 } (a prefix and an extension of it)
    /// define the same names with other values
    SiblingByOidWithPrefixDecoys,
    /// imported from `Mid`, which defines nothing itself and imports the names from `Sib`
    SiblingThroughIntermediate,
    /// imported from `SibModule` while a module `Sib` (the same name without the suffix that the front end strips
    /// from module names) defines the same names with other values
    SiblingWithModuleSuffixAndDecoyWithout,
}

pub const PLACEMENTS: [Placement; 12] = [
    Placement::LocalBefore,
    Placement::LocalAfter,
    Placement::SiblingByName,
    Placement::SiblingByOid,
    Placement::SiblingByOidWithDecoy,
    Placement::LocalShadowsImported,
    Placement::SiblingByNameWithDifferentlySpelledOid,
    Placement::SiblingByNameWithUnrelatedModule,
    Placement::SiblingByNameFormOidWithDecoy,
    Placement::SiblingWithModuleSuffixAndDecoyWithout,
    Placement::SiblingByOidWithPrefixDecoys,
    Placement::SiblingThroughIntermediate,
];

fn fill(t: &str, vals: &[String]) -> String {
    let mut s = t.to_string();
    for (i, v) in vals.iter().enumerate() {
        s = s.replace(&format!("{{{i}}}"), v);
    }
    s
}

fn wrong_value(site: &Site) -> &'static str {
    match site.vtype {
        "INTEGER" => "77",
        "BOOLEAN" => "FALSE",
        _ => "\"decoy\"",
    }
}

/// Returns (modules as (name, text), index of the main module)
pub fn build(base: &Base, replaced: &[usize], p: Placement) -> Vec<(String, String)> {
    build_named(base, replaced, p, &[])
}

/// value reference names that look like reserved words in another letter case (valuereferences start with a
/// lower-case letter; the reserved words MAX, MIN, SIZE, TRUE, ... are upper case: X.680 12.38)
pub const ODD_NAMES: [[&str; 2]; 10] = [["max", "min"], ["min", "max"], ["mAX", "mIN"], ["size", "of"], ["true", "false"], ["optional", "default"], ["end", "begin"], ["imports", "from"], ["integer", "sequence"], ["definitions", "tags"]];

pub fn build_named(base: &Base, replaced: &[usize], p: Placement, names_for_sites: &[&str]) -> Vec<(String, String)> {
    let text = build_plain(base, replaced, p);
    if names_for_sites.is_empty() {
        return text;
    }
    // rename ref-<i> -> the given name of the k-th replaced site (whole-word: the names are followed by a blank,
    // a comma, a parenthesis, a dot or a line end)
    text.into_iter()
        .map(|(n, mut t)| {
            for (k, i) in replaced.iter().enumerate() {
                if let Some(name) = names_for_sites.get(k) {
                    t = t.replace(&format!("ref-{i}"), name);
                }
            }
            (n, t)
        })
        .collect()
}

fn build_plain(base: &Base, replaced: &[usize], p: Placement) -> Vec<(String, String)> {
    let vals: Vec<String> = base.sites.iter().enumerate().map(|(i, s)| if replaced.contains(&i) { format!("ref-{i}") } else { s.lit.to_string() }).collect();
    let body = fill(base.template, &vals);
    let defs = |wrong: bool| -> String { replaced.iter().map(|i| format!("ref-{i} {} ::= {}\n", base.sites[*i].vtype, if wrong { wrong_value(&base.sites[*i]) } else { base.sites[*i].lit })).collect() };
    let names: Vec<String> = replaced.iter().map(|i| format!("ref-{i}")).collect();
    let header = "DEFINITIONS AUTOMATIC TAGS ::= BEGIN";
    match p {
        Placement::LocalBefore => vec![("Main".into(), format!("Main {header}\n{}{body}\nEND\n", defs(false)))],
        Placement::LocalAfter => vec![("Main".into(), format!("Main {header}\n{body}\n{}END\n", defs(false)))],
        Placement::SiblingByName => vec![
            ("Main".into(), format!("Main {header}\nIMPORTS {} FROM Sib;\n{body}\nEND\n", names.join(", "))),
            ("Sib".into(), format!("Sib {header}\n{}END\n", defs(false))),
        ],
        Placement::SiblingByOid => vec![
            ("Main".into(), format!("Main {header}\nIMPORTS {} FROM Sib {{ 1 2 3 }};\n{body}\nEND\n", names.join(", "))),
            ("Sib".into(), format!("Sib {{ 1 2 3 }} {header}\n{}END\n", defs(false))),
        ],
        Placement::SiblingByOidWithDecoy => vec![
            ("Main".into(), format!("Main {header}\nIMPORTS {} FROM Sib {{ 1 2 3 }};\n{body}\nEND\n", names.join(", "))),
            ("Sib".into(), format!("Sib {{ 1 2 3 }} {header}\n{}END\n", defs(false))),
            ("Sib-decoy".into(), format!("Sib {{ 1 2 99 }} {header}\n{}END\n", defs(true))),
        ],
        Placement::SiblingByNameWithDifferentlySpelledOid => vec![
            ("Main".into(), format!("Main {header}\nIMPORTS {} FROM Sib {{ iso(1) two(2) 3 }};\n{body}\nEND\n", names.join(", "))),
            ("Sib".into(), format!("Sib {{ 1 2 3 }} {header}\n{}END\n", defs(false))),
        ],
        Placement::SiblingByNameWithUnrelatedModule => vec![
            ("Main".into(), format!("Main {header}\nIMPORTS {} FROM Sib;\n{body}\nEND\n", names.join(", "))),
            ("Sib".into(), format!("Sib {header}\n{}END\n", defs(false))),
            ("Unrelated".into(), format!("Unrelated {header}\n{}END\n", defs(true))),
        ],
        Placement::SiblingByNameFormOidWithDecoy => vec![
            ("Main".into(), format!("Main {header}\nIMPORTS {} FROM Sib {{ iso standard 4242 }};\n{body}\nEND\n", names.join(", "))),
            ("Sib".into(), format!("Sib {{ iso standard 4242 }} {header}\n{}END\n", defs(false))),
            ("Legacy".into(), format!("Legacy {{ itu-t recommendation 4242 }} {header}\n{}END\n", defs(true))),
        ],
        Placement::SiblingByOidWithPrefixDecoys => vec![
            ("Main".into(), format!("Main {header}\nIMPORTS {} FROM Sib {{ 1 2 3 }};\n{body}\nEND\n", names.join(", "))),
            ("Sib".into(), format!("Sib {{ 1 2 3 }} {header}\n{}END\n", defs(false))),
            ("Arc-above".into(), format!("Arc-above {{ 1 2 }} {header}\n{}END\n", defs(true))),
            ("Sib-amd".into(), format!("Sib-amd {{ 1 2 3 4 }} {header}\n{}END\n", defs(true))),
        ],
        Placement::SiblingThroughIntermediate => vec![
            ("Main".into(), format!("Main {header}\nIMPORTS {} FROM Mid;\n{body}\nEND\n", names.join(", "))),
            ("Mid".into(), format!("Mid {header}\nIMPORTS {} FROM Sib;\nEND\n", names.join(", "))),
            ("Sib".into(), format!("Sib {header}\n{}END\n", defs(false))),
        ],
        Placement::SiblingWithModuleSuffixAndDecoyWithout => vec![
            ("Main".into(), format!("Main {header}\nIMPORTS {} FROM SibModule;\n{body}\nEND\n", names.join(", "))),
            ("SibModule".into(), format!("SibModule {header}\n{}END\n", defs(false))),
            ("Sib".into(), format!("Sib {header}\n{}END\n", defs(true))),
        ],
        Placement::LocalShadowsImported => vec![
            // the local definition is the one in scope; the imported module carries a different value
            ("Main".into(), format!("Main {header}\nIMPORTS {} FROM Sib;\n{}{body}\nEND\n", names.join(", "), defs(false))),
            ("Sib".into(), format!("Sib {header}\n{}END\n", defs(true))),
        ],
    }
}

fn permutations(n: usize) -> Vec<Vec<usize>> {
    if n == 1 {
        return vec![vec![0]];
    }
    let mut out = vec![];
    for p in permutations(n - 1) {
        for i in 0..n {
            let mut q = p.clone();
            q.insert(i, n - 1);
            out.push(q);
        }
    }
    out
}

fn resolve_main(mods: &[(String, String)], order: &[usize]) -> Result<Result<String, String>, String> {
    catch(|| {
        let mut r = MultiModuleResolver::default();
        for i in order {
            let m = Model::try_from(Tokenizer.parse(&mods[*i].1)).map_err(|e| format!("parse error in {}: {e:?}", mods[*i].0))?;
            r.push(m);
        }
        let all = r.try_resolve_all().map_err(|e| format!("resolve error: {e:?}"))?;
        let main = all.iter().find(|m| m.name == "Main").ok_or("no Main")?;
        Ok(format!("{:?}", project(main).defs))
    })
}

pub struct Work {
    pub base: usize,
    pub replaced: Vec<usize>,
    pub placement: Placement,
    /// 0: the references are called ref-<i>; k: the names ODD_NAMES[k - 1]
    pub names: usize,
}

fn subsets(n: usize, max: usize) -> Vec<Vec<usize>> {
    let mut out = vec![];
    for mask in 1u32..(1 << n) {
        if (mask.count_ones() as usize) <= max {
            out.push((0..n).filter(|i| mask & (1 << i) != 0).collect());
        }
    }
    out
}

pub fn check(w: &Work, bs: &[Base]) -> Vec<Failure> {
    let base = &bs[w.base];
    let literal = build(base, &[], Placement::LocalBefore);
    let want = match resolve_main(&literal, &[0]) {
        Ok(Ok(s)) => s,
        other => return vec![Failure { class: format!("c12.literal-variant-rejected.{}", base.name), case: json!({"kind":"c12","base":base.name}), expected: "Ok".into(), observed: format!("{other:?}") }],
    };
    let odd: Vec<&str> = if w.names == 0 { vec![] } else { ODD_NAMES[w.names - 1].to_vec() };
    let mods = build_named(base, &w.replaced, w.placement, &odd);
    let name_class = if w.names == 0 { String::new() } else { format!(".names-{}", ODD_NAMES[w.names - 1].join("-")) };
    let kinds: Vec<&str> = {
        let mut k: Vec<&str> = w.replaced.iter().map(|i| base.sites[*i].kind).collect();
        k.sort();
        k.dedup();
        k
    };
    let mut out = vec![];
    for order in permutations(mods.len()) {
        let main_pos = order.iter().position(|i| *i == 0).unwrap();
        let order_name: Vec<&str> = order.iter().map(|i| mods[*i].0.as_str()).collect();
        let case = || json!({"kind": "c12", "base": base.name, "replaced_sites": w.replaced, "names": w.names, "placement": format!("{:?}", w.placement), "load_order": order_name, "modules": mods.iter().map(|m| m.1.clone()).collect::<Vec<_>>()});
        let decoy_first = w.placement == Placement::SiblingByOidWithDecoy && order.iter().position(|i| *i == 2) < order.iter().position(|i| *i == 1);
        let oclass = if w.placement == Placement::SiblingByOidWithDecoy { if decoy_first { ".decoy-loaded-before-the-real-module" } else { ".real-module-loaded-first" } } else { "" };
        let _ = main_pos;
        match resolve_main(&mods, &order) {
            Err(p) => out.push(Failure { class: format!("c12.panic.{:?}", w.placement), case: case(), expected: want.clone(), observed: format!("panic: {p}") }),
            Ok(Err(e)) => out.push(Failure { class: format!("c12.reference-not-resolved.{:?}{oclass}{name_class}.{}", w.placement, kinds.join("+")), case: case(), expected: truncate(&want, 200), observed: truncate(&e, 200) }),
            Ok(Ok(got)) => {
                if got != want {
                    out.push(Failure { class: format!("c12.resolves-differently-from-literal.{:?}{oclass}{name_class}.{}", w.placement, kinds.join("+")), case: case(), expected: truncate(&want, 240), observed: truncate(&got, 240) });
                }
            }
        }
    }
    out
}

/// negative space: a reference that must NOT resolve
pub fn negatives(bs: &[Base]) -> Vec<(String, Vec<(String, String)>, String)> {
    let mut out = vec![];
    let header = "DEFINITIONS AUTOMATIC TAGS ::= BEGIN";
    for base in bs {
        for (i, s) in base.sites.iter().enumerate() {
            let vals: Vec<String> = base.sites.iter().enumerate().map(|(j, x)| if j == i { "missing-ref".to_string() } else { x.lit.to_string() }).collect();
            let body = fill(base.template, &vals);
            if !s.kind.starts_with("default") {
                out.push((format!("undefined.{}.{}", base.name, s.kind), vec![("Main".into(), format!("Main {header}\n{body}\nEND\n"))], "reference to an undefined value".into()));
                out.push((format!("not-exported.{}.{}", base.name, s.kind), vec![("Main".into(), format!("Main {header}\nIMPORTS missing-ref FROM Sib;\n{body}\nEND\n")), ("Sib".into(), format!("Sib {header}\nother INTEGER ::= 1\nEND\n"))], "imported from a module that does not define it".into()));
                if s.kind.starts_with("size") {
                    out.push((format!("negative-size.{}.{}", base.name, s.kind), vec![("Main".into(), format!("Main {header}\nmissing-ref INTEGER ::= -1\n{body}\nEND\n"))], "a negative number where a size is needed".into()));
                }
                // import cycles that never reach a definition: an error, not unbounded recursion
                out.push((format!("import-cycle.{}.{}", base.name, s.kind), vec![("Main".into(), format!("Main {header}\nIMPORTS missing-ref FROM Sib;\n{body}\nEND\n")), ("Sib".into(), format!("Sib {header}\nIMPORTS missing-ref FROM Main;\nEND\n"))], "imported in a cycle without a definition".into()));
                out.push((format!("self-import.{}.{}", base.name, s.kind), vec![("Main".into(), format!("Main {header}\nIMPORTS missing-ref FROM Main;\n{body}\nEND\n"))], "imported from the importing module itself without a definition".into()));
                for (wt, wv) in [("BOOLEAN", "TRUE"), ("UTF8String", "\"five\"")] {
                    out.push((format!("wrong-type-{wt}.{}.{}", base.name, s.kind), vec![("Main".into(), format!("Main {header}\nmissing-ref {wt} ::= {wv}\n{body}\nEND\n"))], format!("a {wt} value where an integer is needed")));
                }
            }
        }
    }
    out
}

fn check_negative(neg: &(String, Vec<(String, String)>, String), agg: &mut BTreeMap<String, (u64, Failure)>) {
    let (label, mods, why) = neg;
    for order in permutations(mods.len()) {
        let r = resolve_main(mods, &order);
        let kind = label.split('.').next().unwrap_or("");
        let site = label.rsplit('.').next().unwrap_or("");
        match r {
            Ok(Err(_)) => {}
            Err(p) => {
                let class = format!("c12.negative.panic.{kind}");
                agg.entry(class.clone()).or_insert((0, Failure { class, case: json!({"kind":"c12-negative","label":label,"modules":mods.iter().map(|m| m.1.clone()).collect::<Vec<_>>()}), expected: format!("resolve error ({why})"), observed: format!("panic: {p}") })).0 += 1;
            }
            Ok(Ok(got)) => {
                let class = format!("c12.negative.resolved-although-it-must-not.{kind}.{site}");
                agg.entry(class.clone()).or_insert((0, Failure { class, case: json!({"kind":"c12-negative","label":label,"modules":mods.iter().map(|m| m.1.clone()).collect::<Vec<_>>()}), expected: format!("resolve error ({why})"), observed: truncate(&got, 200) })).0 += 1;
            }
        }
    }
}

pub fn run(args: &Args) -> ! {
    let thorough = args.tier.is_thorough();
    let bs = bases();
    let mut work = vec![];
    for (bi, b) in bs.iter().enumerate() {
        for sub in subsets(b.sites.len(), if thorough { 5 } else { 2 }) {
            for p in PLACEMENTS {
                work.push(Work { base: bi, replaced: sub.clone(), placement: p, names: 0 });
                // names that look like reserved words in another letter case: where the definitions are local or in a sibling
                if sub.len() <= 2 && matches!(p, Placement::LocalBefore | Placement::SiblingByName) {
                    for k in 1..=ODD_NAMES.len() {
                        work.push(Work { base: bi, replaced: sub.clone(), placement: p, names: k });
                    }
                }
            }
        }
    }
    // resolution can recurse without bound (stack overflow aborts the process): worker processes
    let negs = negatives(&bs);
    if let Some(cctx) = vcore::sweep::child_ctx() {
        let st = std::cell::RefCell::new(BTreeMap::<String, (u64, Failure)>::new());
        vcore::sweep::child_loop(
            &cctx,
            work.len() + negs.len(),
            16,
            |idx| {
                let mut a = st.borrow_mut();
                if idx < work.len() {
                    for f in check(&work[idx], &bs) {
                        a.entry(f.class.clone()).or_insert((0, f)).0 += 1;
                    }
                } else {
                    check_negative(&negs[idx - work.len()], &mut a);
                }
            },
            || {
                let mut a = st.borrow_mut();
                let v = json!({"failures": failures_to_json(&a)});
                a.clear();
                v
            },
        );
    }
    let sw = vcore::sweep::sweep("c12", vcore::shard::default_shards().min(8), std::time::Duration::from_secs(60), &[]);
    let mut agg: BTreeMap<String, (u64, Failure)> = BTreeMap::new();
    for c in &sw.chunks {
        failures_merge_json(&mut agg, &c["failures"]);
    }
    for cr in &sw.crashes {
        if cr.index >= work.len() {
            let (label, mods, why) = &negs[cr.index - work.len()];
            let class = format!("c12.negative.process-abort.{}", label.split('.').next().unwrap_or(""));
            let f = Failure { class: class.clone(), case: json!({"kind":"c12-negative","label":label,"modules":mods.iter().map(|m| m.1.clone()).collect::<Vec<_>>()}), expected: format!("resolve error ({why})"), observed: format!("worker process {} (stack overflow: unbounded recursion in the resolver?)", cr.what) };
            agg.entry(class).or_insert((0, f)).0 += 1;
            continue;
        }
        let w = &work[cr.index];
        let mods = build(&bs[w.base], &w.replaced, w.placement);
        let class = format!("c12.process-{}.{:?}", if cr.what.starts_with("hang") { "hang" } else { "abort" }, w.placement);
        let f = Failure { class: class.clone(), case: json!({"kind": "c12", "base": bs[w.base].name, "replaced_sites": w.replaced, "names": w.names, "placement": format!("{:?}", w.placement), "modules": mods.iter().map(|m| m.1.clone()).collect::<Vec<_>>()}), expected: "the model of the all-literal module, or a resolve error".into(), observed: format!("worker process {} (stack overflow: unbounded recursion in the resolver?) in some load order", cr.what) };
        agg.entry(class).or_insert((0, f)).0 += 1;
    }
    let mut report = Report::new(args, "model_checking");
    let neg_evals: u64 = negs.iter().map(|n| if n.1.len() == 1 { 1 } else { 2 }).sum();
    for (k, (n, f)) in agg {
        report.merge(k, n, f);
    }
    let resolutions: u64 = work.iter().map(|w| match w.placement { Placement::SiblingByOidWithDecoy | Placement::SiblingByNameWithUnrelatedModule | Placement::SiblingByNameFormOidWithDecoy | Placement::SiblingWithModuleSuffixAndDecoyWithout | Placement::SiblingThroughIntermediate => 6, Placement::SiblingByOidWithPrefixDecoys => 24, Placement::LocalBefore | Placement::LocalAfter => 1, _ => 2 }).sum();
    let mut cov = Map::new();
    cov.insert("exhaustive".into(), json!(true));
    cov.insert("evaluations".into(), json!(resolutions + neg_evals));
    cov.insert("distinct_nontrivial".into(), json!(resolutions + neg_evals));
    cov.insert("states".into(), json!(work.len()));
    cov.insert("transitions".into(), json!(resolutions));
    cov.insert("traces_validated_against_impl".into(), json!(resolutions));
    cov.insert("bases".into(), json!(bs.iter().map(|b| json!({"base": b.name, "sites": b.sites.len(), "template": b.template})).collect::<Vec<_>>()));
    cov.insert("max_sites_replaced".into(), json!(if thorough { 5 } else { 2 }));
    cov.insert("negative_cases".into(), json!(neg_evals));
    cov.insert("rule".into(), json!("for every base schema (25 templates covering INTEGER lower/upper bounds incl. 0 and i64::MAX next to MAX, SIZE lower/upper/fixed/equal/extensible in both spellings and on SEQUENCE OF / SET OF, DEFAULT of INTEGER/BOOLEAN/string, nested types): every subset of <= 2 (quick) / all (thorough) literal sites is replaced by a fresh value reference; the value definitions are placed {in the same module before / after use, in a sibling imported by name, in a sibling imported by OID, in a sibling imported by OID while a decoy module of the same name with another OID and other values is loaded too, locally while an import of the same name carries another value, in a sibling whose OID the import spells differently (matched by name), in a sibling imported by name while an unrelated module without OID defines the same names with other values, in a sibling imported by an OID of name-only components while a module whose OID differs only in those components defines other values}; every permutation of the load order through MultiModuleResolver::try_resolve_all. The projection of the importing module must equal that of the all-literal module. Negative: undefined / not exported / BOOLEAN or string where an integer is needed => resolve error"));
    cov.insert("samples".into(), json!([build(&bs[0], &[0, 1], Placement::SiblingByOidWithDecoy).iter().map(|m| m.1.clone()).collect::<Vec<_>>(), negs[0].1[0].1]));
    report.finish(cov, vec!["comparison through the C07 projection (public fields only)".into()])
}

pub fn replay(case: &J) -> ! {
    let mods: Vec<(String, String)> = case["modules"].as_array().unwrap().iter().enumerate().map(|(i, m)| (format!("m{i}"), m.as_str().unwrap().to_string())).collect();
    let order: Vec<usize> = (0..mods.len()).collect();
    let a = resolve_main(&mods, &order);
    println!("{a:?}");
    std::process::exit(0)
}

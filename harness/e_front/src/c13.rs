//! C13 — the model is invariant under whitespace / comment layout; token locations are exact.
//! E-dev: default layout = one space at every boundary; explore every re-layout with <= d
//! boundaries deviating to another separator from the alphabet.

use crate::lex::{self, Tok};
use crate::seeds::seeds;
use asn1rs_model::parse::{Token, Tokenizer};
use asn1rs_model::Model;
use rayon::prelude::*;
use serde_json::{json, Map, Value as J};
use std::collections::BTreeMap;
use vcore::report::*;

pub fn alphabet(thorough: bool) -> Vec<(&'static str, &'static str)> {
    let mut v = vec![
        ("tab", "\t"),
        // X.680 12.1.6: VERTICAL TABULATION and FORM FEED are white-space too
        ("vertical-tab", "\u{0B}"),
        ("form-feed", "\u{0C}"),
        ("newline", "\n"),
        ("crlf", "\r\n"),
        ("two-spaces", "  "),
        ("line-comment", "-- c\n"),
        ("block-comment", "/* c */"),
        ("nested-block-comment", "/* a /* b */ c */"),
        ("tight-nested-block-comment", "/*/* c */*/"),
        ("empty-block-comment", "/**/"),
        ("block-comment-with-stars", "/** c **/"),
        ("star-only-block-comment", "/***/"),
        // inside a block comment "--" means nothing: the comment is closed on a line that starts with dashes
        ("block-comment-closed-on-dashed-line", "/* a\n-- b */"),
        // a quotation mark within a comment opens no character string
        ("line-comment-containing-quote", "-- \"\n"),
        ("block-comment-containing-quote", "/* \" */"),
        ("empty", ""),
    ];
    if thorough {
        v.extend([
            ("spaced-block-comment", " /* c */ "),
            ("multi-line-block-comment", "/* a\n b */"),
            ("non-ascii-block-comment", "/* ü€ */"),
            ("block-comment-containing-dashes", "/* a -- b */"),
            ("line-comment-containing-block-open", "-- /* c\n"),
            ("depth-3-block-comment", "/*/*/* c */*/*/"),
            ("line-comment-closed-by-dashes", "-- c -- "),
            ("dashed-line-opens-nested-comment", "/* a\n-- /* b */ c */"),
            ("dashed-line-inside-block-comment", "/* a\n-- b\n c */"),
        ]);
    }
    v
}

#[derive(Clone, Debug, PartialEq, Eq)]
struct ETok {
    separator: bool,
    text: String,
    line: usize,
    col: usize,
}

/// `seps[k]` is the separator AFTER item k-1 and BEFORE item k (seps[0] leading, seps[n] trailing)
fn render(items: &[String], seps: &[&str]) -> (String, Vec<ETok>) {
    let mut text = String::new();
    let (mut line, mut col) = (1usize, 1usize);
    let mut exp: Vec<ETok> = vec![];
    let mut advance = |s: &str, line: &mut usize, col: &mut usize, text: &mut String| {
        for ch in s.chars() {
            text.push(ch);
            if ch == '\n' {
                *line += 1;
                *col = 1;
            } else {
                *col += 1;
            }
        }
    };
    advance(seps[0], &mut line, &mut col, &mut text);
    for (k, it) in items.iter().enumerate() {
        if k > 0 && lex::is_sign(&items[k - 1]) && lex::is_number(it) {
            // the tokenizer delivers a signed number as ONE token at the place of its sign, whatever
            // separates the two lexical items
            exp.last_mut().unwrap().text.push_str(it);
        } else {
            for Tok { separator, text: t, offset } in lex::subtokens(it) {
                exp.push(ETok { separator, text: t, line, col: col + offset });
            }
        }
        advance(it, &mut line, &mut col, &mut text);
        advance(seps[k + 1], &mut line, &mut col, &mut text);
    }
    (text, exp)
}

fn actual(tokens: &[Token]) -> Vec<ETok> {
    tokens
        .iter()
        .map(|t| match t {
            Token::Text(l, s) => ETok { separator: false, text: s.clone(), line: l.line(), col: l.column() },
            Token::Separator(l, c) => ETok { separator: true, text: c.to_string(), line: l.line(), col: l.column() },
        })
        .collect()
}

fn model_fingerprint(tokens: Vec<Token>) -> String {
    match Model::try_from(tokens) {
        Err(_) => "parse-error".into(),
        Ok(m) => match m.try_resolve() {
            Err(e) => format!("resolve-error:{e:?}"),
            Ok(r) => format!("{r:?}"),
        },
    }
}

pub struct Seed {
    pub name: &'static str,
    pub items: Vec<String>,
    pub reference_model: String,
}

pub fn load_seeds() -> Vec<Seed> {
    seeds()
        .into_iter()
        .map(|(name, m)| {
            let items = lex::items(&m.asn());
            let seps: Vec<&str> = vec![" "; items.len() + 1];
            let (text, _) = render(&items, &seps);
            let reference_model = model_fingerprint(Tokenizer.parse(&text));
            Seed { name, items, reference_model }
        })
        .collect()
}

/// A failing layout is classified by its culprits: the deviations that already fail alone
/// (a depth-2 failure that is just a depth-1 failure plus an innocent bystander is not a new class).
fn check_layout(seed: &Seed, devs: &[(usize, usize)], alpha: &[(&'static str, &'static str)]) -> Option<Failure> {
    let f = check_layout_raw(seed, devs, alpha)?;
    if devs.len() <= 1 {
        return Some(f);
    }
    let culprits: Vec<(usize, usize)> = devs.iter().copied().filter(|d| check_layout_raw(seed, &[*d], alpha).is_some()).collect();
    if culprits.is_empty() || culprits.len() == devs.len() {
        return Some(f);
    }
    let mut names: Vec<&str> = culprits.iter().map(|(_, a)| alpha[*a].0).collect();
    names.sort();
    names.dedup();
    let kind = f.class.split('.').nth(1).unwrap_or("failure").to_string();
    Some(Failure { class: format!("c13.{kind}.{}", names.join("+")), ..f })
}

fn check_layout_raw(seed: &Seed, devs: &[(usize, usize)], alpha: &[(&'static str, &'static str)]) -> Option<Failure> {
    let n = seed.items.len();
    let mut seps: Vec<&str> = vec![" "; n + 1];
    for (b, a) in devs {
        seps[*b] = alpha[*a].1;
    }
    let (text, exp) = render(&seed.items, &seps);
    let names: Vec<&str> = {
        let mut v: Vec<&str> = devs.iter().map(|(_, a)| alpha[*a].0).collect();
        v.sort();
        v.dedup();
        v
    };
    let case = || json!({"kind": "c13", "seed": seed.name, "deviations": devs.iter().map(|(b, a)| json!({"boundary": b, "separator": alpha[*a].0})).collect::<Vec<_>>(), "text": text});
    let mk = |kind: &str, e: String, o: String| Some(Failure { class: format!("c13.{kind}.{}", names.join("+")), case: case(), expected: e, observed: o });
    let toks = match catch(|| Tokenizer.parse(&text)) {
        Err(p) => return mk("tokenizer-panic", "tokens".into(), format!("panic: {p}")),
        Ok(t) => t,
    };
    let act = actual(&toks);
    let strip = |v: &[ETok]| v.iter().map(|t| (t.separator, t.text.clone())).collect::<Vec<_>>();
    if strip(&act) != strip(&exp) {
        let i = strip(&act).iter().zip(strip(&exp).iter()).position(|(a, b)| a != b).unwrap_or(act.len().min(exp.len()));
        let show = |v: &[ETok]| v.iter().skip(i.saturating_sub(1)).take(4).map(|t| t.text.clone()).collect::<Vec<_>>().join(" ");
        return mk("token-sequence-changed", format!("…{}… ({} tokens)", show(&exp), exp.len()), format!("…{}… ({} tokens)", show(&act), act.len()));
    }
    if let Some(i) = act.iter().zip(exp.iter()).position(|(a, b)| a != b) {
        return mk("token-location-wrong", format!("{:?} at {}:{}", exp[i].text, exp[i].line, exp[i].col), format!("{:?} reported at {}:{}", act[i].text, act[i].line, act[i].col));
    }
    let fp = match catch(|| model_fingerprint(toks)) {
        Err(p) => return mk("parser-panic", "model".into(), format!("panic: {p}")),
        Ok(f) => f,
    };
    // error values carry token locations, which legitimately move with the layout
    let norm = |s: &str| if s.starts_with("parse-error") || s.starts_with("resolve-error") { s.split(':').next().unwrap().to_string() } else { s.to_string() };
    if norm(&fp) != norm(&seed.reference_model) {
        return mk("model-changed", truncate(&seed.reference_model, 200), truncate(&fp, 200));
    }
    None
}

fn allowed(seed: &Seed, b: usize, sep: &str) -> bool {
    if !sep.is_empty() {
        // a line comment swallows the rest of the line: fine at any boundary, it ends with a newline -
        // except right behind a sign, where its hyphens would start the comment one character early
        if sep.starts_with('-') && b > 0 && seed.items[b - 1].ends_with('-') {
            return false;
        }
        return true;
    }
    // the empty separator only where the neighbours stay distinct lexical items
    if b == 0 || b == seed.items.len() {
        return true;
    }
    lex::may_touch(&seed.items[b - 1], &seed.items[b])
}

pub fn run(args: &Args) -> ! {
    let mut report = Report::new(args, "model_checking");
    let thorough = args.tier.is_thorough();
    let alpha = alphabet(thorough);
    let seeds = load_seeds();
    // work list: (seed, deviations)
    let mut work: Vec<(usize, Vec<(usize, usize)>)> = vec![];
    let mut per_depth = [0u64; 4];
    for (si, s) in seeds.iter().enumerate() {
        let n = s.items.len();
        work.push((si, vec![]));
        per_depth[0] += 1;
        let singles: Vec<(usize, usize)> = (0..=n).flat_map(|b| (0..alpha.len()).map(move |a| (b, a))).filter(|(b, a)| allowed(s, *b, alpha[*a].1)).collect();
        for d in &singles {
            work.push((si, vec![*d]));
            per_depth[1] += 1;
        }
        // depth 2: all seeds when thorough, the small ones (<= 45 items) when quick
        let d2 = thorough || n <= 45;
        if d2 {
            for (i, x) in singles.iter().enumerate() {
                for y in &singles[i + 1..] {
                    if x.0 != y.0 {
                        work.push((si, vec![*x, *y]));
                        per_depth[2] += 1;
                    }
                }
            }
        }
        // depth 3 on the smallest seeds (thorough), adjacent boundaries only would be sampling: take all triples of the 2 smallest
        if thorough && n <= 12 {
            for (i, x) in singles.iter().enumerate() {
                for (j, y) in singles.iter().enumerate().skip(i + 1) {
                    for z in &singles[j + 1..] {
                        if x.0 != y.0 && y.0 != z.0 && x.0 != z.0 {
                            work.push((si, vec![*x, *y, *z]));
                            per_depth[3] += 1;
                        }
                    }
                }
            }
        }
    }
    let fails: Vec<Option<Failure>> = work.par_iter().map(|(si, devs)| check_layout(&seeds[*si], devs, &alpha)).collect();
    let mut agg: BTreeMap<String, (u64, Failure)> = BTreeMap::new();
    for f in fails.into_iter().flatten() {
        agg.entry(f.class.clone()).or_insert((0, f)).0 += 1;
    }
    for (k, (n, f)) in agg {
        report.merge(k, n, f);
    }
    let total = work.len() as u64;
    let mut cov = Map::new();
    cov.insert("exhaustive".into(), json!(true));
    cov.insert("evaluations".into(), json!(total));
    cov.insert("distinct_nontrivial".into(), json!(total - per_depth[0]));
    cov.insert("states".into(), json!(total));
    cov.insert("transitions".into(), json!(total));
    cov.insert("traces_validated_against_impl".into(), json!(total));
    cov.insert("layouts_by_number_of_deviations".into(), json!({"0": per_depth[0], "1": per_depth[1], "2": per_depth[2], "3": per_depth[3]}));
    cov.insert("seeds".into(), json!(seeds.iter().map(|s| json!({"seed": s.name, "lexical_items": s.items.len()})).collect::<Vec<_>>()));
    cov.insert("separator_alphabet".into(), json!(alpha.iter().map(|(n, s)| json!({"name": n, "text": s})).collect::<Vec<_>>()));
    cov.insert("rule".into(), json!("deviation-bounded search: the default layout puts one space at every lexical boundary (incl. before the first and after the last item); every layout in which <= d boundaries use another separator of the alphabet is rendered, tokenized by the real Tokenizer and parsed+resolved by the real front end: (kind, text) of every token == reference lexer's, every token location == the (line, column in characters) at which the printer placed its first character, model == the default layout's. The empty separator is used only where both neighbours remain distinct lexical items. non-trivial = >= 1 deviation; layouts are distinct by construction"));
    let w = &work[work.len() / 2];
    cov.insert("samples".into(), json!([{"seed": seeds[w.0].name, "deviations": w.1.iter().map(|(b, a)| json!({"boundary": b, "separator": alpha[*a].0})).collect::<Vec<_>>()}, {"seed": seeds[0].name, "items": seeds[0].items}]));
    report.finish(cov, vec!["the reference lexer (e_front::lex, 100 lines) defines the lexical items; comments follow X.680 12.6 (a line comment ends at the end of line or at the next '--')".into()])
}

pub fn replay(case: &J) -> ! {
    let thorough = true;
    let alpha = alphabet(thorough);
    let seeds = load_seeds();
    let seed = seeds.iter().find(|s| s.name == case["seed"].as_str().unwrap_or("")).unwrap_or_else(|| machinery_error("unknown seed"));
    let devs: Vec<(usize, usize)> = case["deviations"].as_array().unwrap().iter().map(|d| (d["boundary"].as_u64().unwrap() as usize, alpha.iter().position(|a| a.0 == d["separator"].as_str().unwrap()).unwrap())).collect();
    let a = check_layout(seed, &devs, &alpha).map(|f| format!("FAIL {} expected[{}] observed[{}]", f.class, f.expected, f.observed));
    let b = check_layout(seed, &devs, &alpha).map(|f| format!("FAIL {} expected[{}] observed[{}]", f.class, f.expected, f.observed));
    if a != b {
        machinery_error("replay not deterministic");
    }
    match a {
        None => {
            println!("ok");
            std::process::exit(0)
        }
        Some(l) => {
            println!("{l}");
            std::process::exit(1)
        }
    }
}

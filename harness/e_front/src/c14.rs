//! C14 — the front end is total: malformed text gives an error, not a panic or a hang; the only
//! sanctioned panic is the documented one for an unterminated block comment.
//! E-dev on f = number of faults applied to a valid seed module, plus token soups.

use crate::lex;
use crate::seeds::seeds;
use asn1rs_model::generate::Generator;
use asn1rs_model::parse::Tokenizer;
use asn1rs_model::Model;
use serde_json::{json, Map, Value as J};
use std::collections::BTreeMap;
use vcore::report::*;

pub fn vocabulary(reduced: bool) -> Vec<&'static str> {
    let mut v = vec![
        "::=", "..", "...", "{", "}", "(", ")", "[", "]", ",", ";", ":", "=", ".", "'", "\"", "SEQUENCE", "SET", "OF", "CHOICE", "ENUMERATED", "INTEGER", "BOOLEAN", "SIZE", "OPTIONAL", "DEFAULT", "MIN", "MAX", "0", "-1",
        "a", "A", "END", "BEGIN",
    ];
    if !reduced {
        v.extend([
            "DEFINITIONS", "AUTOMATIC", "TAGS", "IMPORTS", "FROM", "NULL", "OCTET", "BIT", "STRING", "UTF8String", "IA5String", "NumericString", "PrintableString", "VisibleString", "UNIVERSAL", "APPLICATION", "PRIVATE", "TRUE", "FALSE", "WITH",
            "COMPONENTS", "9223372036854775808", "18446744073709551616", "-9223372036854775809", "'AB'H", "'01'B", "\"x\"", "--", "/*", "*/", "H", "B", "1000", "-300", "65536", "B", "C",
        ]);
    }
    v
}

#[derive(Clone, Debug)]
pub enum Fault {
    Delete(usize),
    Duplicate(usize),
    Swap(usize),
    Replace(usize, usize),
    Insert(usize, usize),
    Truncate(usize),
}

pub fn faults(n: usize, nvoc: usize) -> Vec<Fault> {
    let mut v = vec![];
    for i in 0..n {
        v.push(Fault::Delete(i));
        v.push(Fault::Duplicate(i));
        if i + 1 < n {
            v.push(Fault::Swap(i));
        }
        v.push(Fault::Truncate(i));
        for w in 0..nvoc {
            v.push(Fault::Replace(i, w));
        }
    }
    for i in 0..=n {
        for w in 0..nvoc {
            v.push(Fault::Insert(i, w));
        }
    }
    v
}

/// Items carry the whitespace that FOLLOWS them (" " or "\n"), so that faults keep the line
/// structure of a multi-line seed: element = "item" + separator.
pub fn apply(items: &[String], f: &Fault, voc: &[&str]) -> Vec<String> {
    let mut v = items.to_vec();
    let sep_of = |s: &String| if s.ends_with('\n') { "\n" } else { " " };
    let with_sep = |w: &str, like: &String| format!("{w}{}", sep_of(like));
    let body = |s: &String| s.trim_end_matches([' ', '\n']).to_string();
    match f {
        Fault::Delete(i) => {
            if *i < v.len() {
                v.remove(*i);
            }
        }
        Fault::Duplicate(i) => {
            if *i < v.len() {
                let x = format!("{} ", body(&v[*i]));
                v.insert(*i, x);
            }
        }
        Fault::Swap(i) => {
            if *i + 1 < v.len() {
                let (a, b) = (body(&v[*i]), body(&v[*i + 1]));
                let (sa, sb) = (sep_of(&v[*i]).to_string(), sep_of(&v[*i + 1]).to_string());
                v[*i] = format!("{b}{sa}");
                v[*i + 1] = format!("{a}{sb}");
            }
        }
        Fault::Replace(i, w) => {
            if *i < v.len() {
                v[*i] = with_sep(voc[*w], &v[*i]);
            }
        }
        Fault::Insert(i, w) => {
            let at = (*i).min(v.len());
            v.insert(at, format!("{} ", voc[*w]));
        }
        Fault::Truncate(i) => v.truncate(*i),
    }
    v
}

/// whitespace-split words of a text, each with the whitespace that follows it
pub fn words_with_separators(text: &str) -> Vec<String> {
    let mut out: Vec<String> = vec![];
    let mut cur = String::new();
    for ch in text.chars() {
        if ch == ' ' || ch == '\n' {
            if !cur.is_empty() {
                out.push(format!("{cur}{}", if ch == '\n' { "\n" } else { " " }));
                cur.clear();
            } else if ch == '\n' {
                if let Some(l) = out.last_mut() {
                    if !l.ends_with('\n') {
                        *l = format!("{}\n", l.trim_end());
                    }
                }
            }
        } else {
            cur.push(ch);
        }
    }
    if !cur.is_empty() {
        out.push(format!("{cur} "));
    }
    out
}

/// a multi-line rendering of a seed with block, nested and line comments between its items
pub fn commented_layout(items: &[String]) -> String {
    let mut s = String::new();
    for (k, it) in items.iter().enumerate() {
        s.push_str(it);
        s.push_str(match k {
            1 => " /* header note\n continued here */\n",
            4 => " -- a line comment\n",
            7 => "\n/* outer /* inner\n still inner */ outer again\n end */ ",
            _ if k % 3 == 2 => "\n",
            _ => " ",
        });
    }
    s
}

/// innermost asn1rs_model function of the current panic (computed once per panic location)
fn panic_function() -> String {
    let bt = std::backtrace::Backtrace::force_capture().to_string();
    for l in bt.lines() {
        let l = l.trim();
        if let Some(p) = l.find("asn1rs_model::") {
            let f = &l[p..];
            // strip generic hashes
            let f = f.split("::h").next().unwrap_or(f);
            return f.chars().take(110).collect();
        }
    }
    "<no asn1rs_model frame>".into()
}

thread_local! {
    static LAST_FN: std::cell::RefCell<String> = const { std::cell::RefCell::new(String::new()) };
    static FN_CACHE: std::cell::RefCell<BTreeMap<String, String>> = const { std::cell::RefCell::new(BTreeMap::new()) };
}

pub fn install_hook() {
    std::panic::set_hook(Box::new(|info| {
        let loc = info.location().map(|l| format!("{}:{}", l.file(), l.line())).unwrap_or_default();
        let f = FN_CACHE.with(|c| {
            let mut c = c.borrow_mut();
            c.entry(loc.clone()).or_insert_with(panic_function).clone()
        });
        LAST_FN.with(|l| *l.borrow_mut() = f);
        LAST_PANIC_LOC.with(|l| *l.borrow_mut() = Some(loc));
    }));
}

fn normalize(msg: &str) -> String {
    let m = msg.split(" @ ").next().unwrap_or(msg);
    let mut out = String::new();
    let mut in_quote = false;
    for ch in m.chars() {
        if ch == '"' || ch == '\'' || ch == '`' {
            in_quote = !in_quote;
            continue;
        }
        if in_quote {
            continue;
        }
        out.push(if ch.is_ascii_digit() { '#' } else if ch.is_alphanumeric() || ch == ' ' { ch } else { '_' });
        if out.len() >= 48 {
            break;
        }
    }
    out.trim().replace(' ', "-")
}

pub const SANCTIONED: &str = "The file has unclosed comment blocks";

/// Reference: does the text really contain an unterminated block comment? (X.680 12.6.4: block
/// comments nest; "--" has no meaning inside a block comment; outside, a line comment hides the
/// rest of its line). The sanctioned panic is accepted only if this holds.
pub fn reference_unterminated_block_comment(text: &str) -> bool {
    let mut nest = 0usize;
    // X.680 12.6: nothing within a cstring starts a comment (and a quotation mark within a comment opens no cstring)
    let mut in_string = false;
    for line in text.lines() {
        let c: Vec<char> = line.chars().collect();
        let mut i = 0;
        while i < c.len() {
            if nest == 0 && c[i] == '"' {
                in_string = !in_string;
                i += 1;
                continue;
            }
            if in_string {
                i += 1;
                continue;
            }
            if nest == 0 && c[i] == '-' && c.get(i + 1) == Some(&'-') {
                break;
            }
            if c[i] == '/' && c.get(i + 1) == Some(&'*') {
                nest += 1;
                i += 2;
                continue;
            }
            if nest > 0 && c[i] == '*' && c.get(i + 1) == Some(&'/') {
                nest -= 1;
                i += 2;
                continue;
            }
            i += 1;
        }
    }
    nest > 0
}

/// Runs every stage; returns Some((stage, panic message, function)) on a panic.
pub fn pipeline(text: &str) -> Option<(&'static str, String, String)> {
    let run = |stage: &'static str, f: &mut dyn FnMut()| -> Option<(&'static str, String, String)> {
        match catch(|| f()) {
            Ok(()) => None,
            Err(p) => Some((stage, p, LAST_FN.with(|l| l.borrow().clone()))),
        }
    };
    let mut tokens = None;
    if let Some(p) = run("tokenize", &mut || tokens = Some(Tokenizer.parse(text))) {
        return Some(p);
    }
    let mut model = None;
    if let Some(p) = run("parse", &mut || model = Some(Model::try_from(tokens.take().unwrap()))) {
        return Some(p);
    }
    let model = match model.unwrap() {
        Ok(m) => m,
        Err(_) => return None,
    };
    let mut resolved = None;
    if let Some(p) = run("resolve", &mut || resolved = Some(model.try_resolve())) {
        return Some(p);
    }
    let resolved = match resolved.unwrap() {
        Ok(m) => m,
        Err(_) => return None,
    };
    let mut rust = None;
    if let Some(p) = run("to_rust", &mut || rust = Some(resolved.to_rust())) {
        return Some(p);
    }
    let rust = rust.unwrap();
    if let Some(p) = run("generate_rust", &mut || {
        let _ = asn1rs_model::generate::rust::RustCodeGenerator::from(rust.clone()).to_string();
    }) {
        return Some(p);
    }
    let mut proto = None;
    if let Some(p) = run("to_protobuf", &mut || {
        use asn1rs_model::protobuf::ToProtobufModel;
        proto = Some(rust.to_protobuf());
    }) {
        return Some(p);
    }
    if let Some(p) = run("generate_protobuf", &mut || {
        let mut g = asn1rs_model::generate::protobuf::ProtobufDefGenerator::default();
        g.add_model(proto.take().unwrap());
        let _ = g.to_string();
    }) {
        return Some(p);
    }
    None
}

pub fn check_text(text: &str, how: &str, fails: &mut BTreeMap<String, (u64, Failure)>) -> bool {
    match pipeline(text) {
        None => false,
        Some((stage, msg, func)) => {
            if stage == "tokenize" && msg.contains(SANCTIONED) {
                if reference_unterminated_block_comment(text) {
                    return true; // the documented panic, and the comment really is unterminated
                }
                let class = "c14.sanctioned-panic-although-every-comment-is-terminated".to_string();
                let f = Failure { class: class.clone(), case: json!({"kind": "c14", "text": text, "derived": how}), expected: "tokens (every block comment of the input is terminated)".into(), observed: format!("panic: {msg}") };
                fails.entry(class).or_insert((0, f)).0 += 1;
                return true;
            }
            let class = format!("c14.panic.{stage}.{}.{}", func.replace(' ', ""), normalize(&msg));
            let f = Failure { class: class.clone(), case: json!({"kind": "c14", "text": text, "derived": how}), expected: "a model or an error value".into(), observed: format!("panic in stage {stage}: {msg} (in {func})") };
            fails.entry(class).or_insert((0, f)).0 += 1;
            true
        }
    }
}

pub struct Space {
    pub seeds: Vec<(&'static str, Vec<String>, String)>,
    pub voc: Vec<&'static str>,
    /// (seed index, first fault) - one block each; plus char-fault and soup blocks
    pub blocks: Vec<Block>,
    pub thorough: bool,
}

#[derive(Clone, Debug)]
pub enum Block {
    TokenFault { seed: usize, fault: usize, second: bool },
    CharFaults { seed: usize, pos: usize },
    Soup { prefix: Vec<usize>, depth: usize, context: usize },
}

const CHAR_MENU: &str = "{}()[],.:=\"'-/*ü";
const SOUP_CONTEXTS: [(&str, &str); 3] = [("M DEFINITIONS AUTOMATIC TAGS ::= BEGIN X ::= ", " END"), ("M DEFINITIONS AUTOMATIC TAGS ::= BEGIN ", " END"), ("M DEFINITIONS AUTOMATIC TAGS ::= BEGIN X ::= SEQUENCE { a ", " } END")];

impl Space {
    pub fn new(thorough: bool) -> Self {
        let voc = vocabulary(false);
        let mut seeds: Vec<(&'static str, Vec<String>, String)> = seeds().into_iter().map(|(n, m)| (n, lex::items(&m.asn()).into_iter().map(|i| format!("{i} ")).collect(), m.asn())).collect();
        // multi-line variants with comments: the "items" are whitespace separated words (comment
        // delimiters and comment words included), so faults also land inside comments and at line starts
        for (name, idx) in [("s12-smallest-commented", 0usize), ("s1-readme-commented", 1), ("s10-literals-commented", seeds.iter().position(|s| s.0 == "s10-literals").expect("seed s10-literals"))] {
            let plain: Vec<String> = seeds[idx].1.iter().map(|s| s.trim_end().to_string()).collect();
            let text = commented_layout(&plain);
            seeds.push((name, words_with_separators(&text), text));
        }
        let mut blocks = vec![];
        for (si, (_, items, _)) in seeds.iter().enumerate() {
            let nf = faults(items.len(), voc.len()).len();
            for f in 0..nf {
                // two faults: thorough, on the seeds with <= 32 lexical items
                blocks.push(Block::TokenFault { seed: si, fault: f, second: thorough && items.len() <= 32 });
            }
        }
        for (si, (_, items, text)) in seeds.iter().enumerate() {
            if items.len() <= 45 || thorough {
                for pos in 0..=text.chars().count() {
                    blocks.push(Block::CharFaults { seed: si, pos });
                }
            }
        }
        // token soups: every sequence of <= 3 (quick, reduced vocabulary) / <= 4 (thorough, reduced) items
        let rv = vocabulary(true).len();
        let depth = if thorough { 4 } else { 3 };
        for c in 0..SOUP_CONTEXTS.len() {
            for a in 0..rv {
                for b in 0..rv {
                    blocks.push(Block::Soup { prefix: vec![a, b], depth, context: c });
                }
            }
        }
        Space { seeds, voc, blocks, thorough }
    }

    pub fn run_block(&self, b: &Block, fails: &mut BTreeMap<String, (u64, Failure)>, locate: bool) -> (u64, u64) {
        let mut n = 0u64;
        let mut sanctioned_or_panic = 0u64;
        let mut k = 0usize;
        let mut one = |text: &str, how: &dyn Fn() -> String, fails: &mut BTreeMap<String, (u64, Failure)>| {
            if locate {
                println!("K {k}");
                println!("T {}", serde_json::to_string(text).unwrap());
            }
            k += 1;
            n += 1;
            if check_text(text, &how(), fails) {
                sanctioned_or_panic += 1;
            }
        };
        match b {
            Block::TokenFault { seed, fault, second } => {
                let (name, items, _) = &self.seeds[*seed];
                let fs = faults(items.len(), self.voc.len());
                let f1 = &fs[*fault];
                let v1 = apply(items, f1, &self.voc);
                one(&v1.concat(), &|| format!("seed {name}: {f1:?}"), fails);
                if *second {
                    for f2 in faults(v1.len(), self.voc.len()) {
                        let v2 = apply(&v1, &f2, &self.voc);
                        one(&v2.concat(), &|| format!("seed {name}: {f1:?} then {f2:?}"), fails);
                    }
                }
            }
            Block::CharFaults { seed, pos } => {
                let (name, _, text) = &self.seeds[*seed];
                let chars: Vec<char> = text.chars().collect();
                if *pos < chars.len() {
                    let mut c = chars.clone();
                    c.remove(*pos);
                    one(&c.iter().collect::<String>(), &|| format!("seed {name}: delete character {pos}"), fails);
                }
                for ins in CHAR_MENU.chars() {
                    let mut c = chars.clone();
                    c.insert((*pos).min(c.len()), ins);
                    one(&c.iter().collect::<String>(), &|| format!("seed {name}: insert {ins:?} at character {pos}"), fails);
                }
            }
            Block::Soup { prefix, depth, context } => {
                let rv = vocabulary(true);
                let (pre, post) = SOUP_CONTEXTS[*context];
                // all completions of the 2-item prefix up to `depth` items (and the prefix itself, and its first item)
                let mut seqs: Vec<Vec<usize>> = vec![prefix.clone()];
                if prefix[1] == 0 {
                    seqs.push(vec![prefix[0]]);
                }
                let mut level: Vec<Vec<usize>> = vec![prefix.clone()];
                for _ in 2..*depth {
                    let mut next = vec![];
                    for s in &level {
                        for w in 0..rv.len() {
                            let mut t = s.clone();
                            t.push(w);
                            next.push(t);
                        }
                    }
                    seqs.extend(next.iter().cloned());
                    level = next;
                }
                for s in seqs {
                    let soup: Vec<&str> = s.iter().map(|w| rv[*w]).collect();
                    let text = format!("{pre}{}{post}", soup.join(" "));
                    one(&text, &|| format!("token soup in context {context}"), fails);
                }
            }
        }
        (n, sanctioned_or_panic)
    }
}

fn locate(block: usize) -> Option<(usize, String)> {
    use std::process::{Command, Stdio};
    let exe = std::env::current_exe().ok()?;
    let args: Vec<String> = std::env::args().skip(1).collect();
    let mut c = Command::new(exe).args(&args).env("VERIF_SWEEP", format!("locate|{block}|{}|{block}|", usize::MAX / 2)).env("VERIF_DETAIL_BLOCK", block.to_string()).stdout(Stdio::piped()).stderr(Stdio::null()).spawn().ok()?;
    let mut last = None;
    let mut text = String::new();
    let mut done = false;
    vcore::sweep::lines_until_silent(&mut c, std::time::Duration::from_secs(20), |l| {
        if let Some(k) = l.strip_prefix("K ") {
            last = k.trim().parse::<usize>().ok();
        } else if let Some(t) = l.strip_prefix("T ") {
            text = serde_json::from_str(t).unwrap_or_default();
        } else if l == "D" {
            done = true;
            return false;
        }
        true
    });
    let _ = c.kill();
    let _ = c.wait();
    if done {
        return None;
    }
    last.map(|k| (k, text))
}

pub fn run(args: &Args) -> ! {
    install_hook();
    let space = Space::new(args.tier.is_thorough());
    if let Some(cctx) = vcore::sweep::child_ctx() {
        vcore::sweep::limit_address_space(6 << 30);
        let detail = std::env::var("VERIF_DETAIL_BLOCK").ok().and_then(|s| s.parse::<usize>().ok());
        let st = std::cell::RefCell::new((BTreeMap::<String, (u64, Failure)>::new(), 0u64, 0u64));
        vcore::sweep::child_loop(
            &cctx,
            space.blocks.len(),
            if space.thorough { 64 } else { 2000 },
            |idx| {
                if let Some(d) = detail {
                    if d != idx {
                        return;
                    }
                }
                let mut s = st.borrow_mut();
                let (n, p) = space.run_block(&space.blocks[idx], &mut s.0, detail.is_some());
                s.1 += n;
                s.2 += p;
                if idx % 64 == 0 {
                    println!("H");
                }
            },
            || {
                let mut s = st.borrow_mut();
                let v = json!({"failures": failures_to_json(&s.0), "inputs": s.1, "panics_incl_sanctioned": s.2});
                s.0.clear();
                s.1 = 0;
                s.2 = 0;
                v
            },
        );
    }
    let mut report = Report::new(args, "fault_enumeration");
    let res = vcore::sweep::sweep("c14", vcore::shard::default_shards(), std::time::Duration::from_secs(60), &[]);
    let mut fails: BTreeMap<String, (u64, Failure)> = BTreeMap::new();
    let mut inputs = 0u64;
    for c in &res.chunks {
        failures_merge_json(&mut fails, &c["failures"]);
        inputs += c["inputs"].as_u64().unwrap_or(0);
    }
    for cr in &res.crashes {
        let what = if cr.what.starts_with("hang") { "hang" } else { "abort" };
        let (k, text) = locate(cr.index).map(|(k, t)| (Some(k), t)).unwrap_or((None, String::new()));
        let class = format!("c14.process-{what}");
        let f = Failure { class: class.clone(), case: json!({"kind": "c14", "text": text, "derived": format!("{:?} case {k:?}", space.blocks[cr.index])}), expected: "a model or an error value".into(), observed: format!("worker process {} (stack overflow or allocation failure)", cr.what) };
        fails.entry(class).or_insert((0, f)).0 += 1;
    }
    for (k, (n, f)) in fails {
        report.merge(k, n, f);
    }
    if inputs == 0 {
        machinery_error("C14: vacuous");
    }
    let nt = space.blocks.iter().filter(|b| matches!(b, Block::TokenFault { .. })).count();
    let nc = space.blocks.iter().filter(|b| matches!(b, Block::CharFaults { .. })).count();
    let mut cov = Map::new();
    cov.insert("exhaustive".into(), json!(true));
    cov.insert("evaluations".into(), json!(inputs));
    cov.insert("distinct_nontrivial".into(), json!(inputs));
    cov.insert("blocks".into(), json!({"token_fault_first_faults": nt, "character_fault_positions": nc, "soup_prefixes": space.blocks.len() - nt - nc}));
    cov.insert("fault_depth".into(), json!(if space.thorough { "1 on every seed, 2 on seeds with <= 32 lexical items" } else { "1" }));
    cov.insert("vocabulary".into(), json!(space.voc));
    cov.insert("seeds".into(), json!(space.seeds.iter().map(|s| json!({"seed": s.0, "lexical_items": s.1.len()})).collect::<Vec<_>>()));
    cov.insert("worker_process_crashes".into(), json!(res.crashes.len()));
    cov.insert("rule".into(), json!("every fault of the menu {delete, duplicate, swap with next, truncate after, replace by / insert each word of the vocabulary} at every lexical item of every seed module (thorough: every pair of faults on the small seeds); every single-character deletion and insertion of each of {}()[],.:=\"'-/*ü at every character position of the short seeds; every token soup of <= 3 (4) vocabulary words in three syntactic contexts. Each input runs tokenize -> parse -> resolve -> to_rust -> Rust generator -> to_protobuf -> .proto generator, each stage under catch_unwind inside a worker process (abort / hang attribution). Only the documented 'unclosed comment blocks' panic of the tokenizer is accepted. Every input is distinct by construction (same text may arise from different faults; counted per fault)"));
    cov.insert("samples".into(), json!([{"seed": space.seeds[0].0, "fault": "Replace(3, '...')", "text": apply(&space.seeds[0].1, &Fault::Replace(3, 2), &space.voc).concat()}, {"soup": format!("{}{}{}", SOUP_CONTEXTS[0].0, "SEQUENCE { ...", SOUP_CONTEXTS[0].1)}]));
    report.finish(cov, vec!["panic classes are keyed by (stage, innermost asn1rs_model function, normalised message) - stable under line shifts, distinct for a new unwrap elsewhere".into()])
}

pub fn replay(case: &J) -> ! {
    install_hook();
    // a case recorded for a hang must not hang the replay
    std::thread::spawn(|| {
        std::thread::sleep(std::time::Duration::from_secs(60));
        println!("FAIL no model and no error value within 60 s (hang)");
        std::process::exit(1)
    });
    let text = case["text"].as_str().unwrap_or("");
    let a = pipeline(text).map(|(s, m, f)| format!("stage {s}: {m} in {f}"));
    let b = pipeline(text).map(|(s, m, f)| format!("stage {s}: {m} in {f}"));
    if a != b {
        machinery_error("replay not deterministic");
    }
    match a {
        Some(p) if !p.contains(SANCTIONED) => {
            println!("FAIL panic: {p}");
            std::process::exit(1)
        }
        _ => {
            println!("ok (no unsanctioned panic)");
            std::process::exit(0)
        }
    }
}

//! C15 — the Rust type chosen for an INTEGER can hold every permitted value, is the narrowest such
//! type, and the generated min/max accessors return the declared bounds.

use asn1rs_model::generate::Generator;
use asn1rs_model::parse::Tokenizer;
use asn1rs_model::rust::{Rust, RustType};
use asn1rs_model::Model;
use rayon::prelude::*;
use serde_json::{json, Map, Value as J};
use std::collections::BTreeMap;
use vcore::report::*;

#[derive(Clone, Copy, Debug, PartialEq)]
pub enum B {
    Min,
    Max,
    Lit(i64),
}

pub fn boundary_set(thorough: bool) -> Vec<i64> {
    let mut v: Vec<i128> = vec![0, 1, -1, 2, -2, 100, -100, 1000, -1000];
    let ks: Vec<u32> = if thorough { (1..=63).collect() } else { vec![6, 7, 8, 15, 16, 31, 32, 62, 63] };
    for k in ks {
        let p = 1i128 << k;
        for d in [-2i128, -1, 0, 1, 2] {
            v.push(p + d);
            v.push(-p + d);
        }
    }
    let mut v: Vec<i64> = v.into_iter().filter(|x| *x >= i64::MIN as i128 && *x <= i64::MAX as i128).map(|x| x as i64).collect();
    v.sort();
    v.dedup();
    v
}

/// reference: the narrowest standard Rust integer type for the constraint
pub fn refint(lo: B, hi: B, ext: bool) -> &'static str {
    let signed = match lo {
        B::Min => true,
        B::Lit(l) => l < 0,
        B::Max => false,
    };
    if ext {
        return if signed { "i64" } else { "u64" };
    }
    let l: i128 = match lo {
        B::Min => i64::MIN as i128,
        B::Lit(l) => l as i128,
        B::Max => unreachable!(),
    };
    let h: i128 = match hi {
        B::Max => {
            if signed { i64::MAX as i128 } else { u64::MAX as i128 }
        }
        B::Lit(h) => h as i128,
        B::Min => unreachable!(),
    };
    if signed {
        for (n, min, max) in [("i8", i8::MIN as i128, i8::MAX as i128), ("i16", i16::MIN as i128, i16::MAX as i128), ("i32", i32::MIN as i128, i32::MAX as i128)] {
            if l >= min && h <= max {
                return n;
            }
        }
        "i64"
    } else {
        for (n, max) in [("u8", u8::MAX as i128), ("u16", u16::MAX as i128), ("u32", u32::MAX as i128)] {
            if h <= max {
                return n;
            }
        }
        "u64"
    }
}

fn bstr(b: B) -> String {
    match b {
        B::Min => "MIN".into(),
        B::Max => "MAX".into(),
        B::Lit(v) => v.to_string(),
    }
}

fn bclass(b: B) -> &'static str {
    match b {
        B::Min => "MIN",
        B::Max => "MAX",
        B::Lit(v) if v < 0 => "negative",
        B::Lit(0) => "zero",
        B::Lit(i64::MAX) => "i64max",
        B::Lit(_) => "positive",
    }
}

#[derive(Clone, Debug)]
pub struct Case {
    pub lo: Option<B>, // None/None = no constraint at all
    pub hi: Option<B>,
    pub ext: bool,
    pub as_field: bool,
}

impl Case {
    pub fn asn(&self) -> String {
        let c = match (self.lo, self.hi) {
            (Some(l), Some(h)) => format!(" ({}..{}{})", bstr(l), bstr(h), if self.ext { ",..." } else { "" }),
            _ => String::new(),
        };
        if self.as_field {
            format!("M DEFINITIONS AUTOMATIC TAGS ::= BEGIN X ::= SEQUENCE {{ f INTEGER{c} }} END")
        } else {
            format!("M DEFINITIONS AUTOMATIC TAGS ::= BEGIN X ::= INTEGER{c} END")
        }
    }
}

fn rust_type_name(t: &RustType) -> String {
    match t {
        RustType::I8(_) => "i8".into(),
        RustType::U8(_) => "u8".into(),
        RustType::I16(_) => "i16".into(),
        RustType::U16(_) => "u16".into(),
        RustType::I32(_) => "i32".into(),
        RustType::U32(_) => "u32".into(),
        RustType::I64(_) => "i64".into(),
        RustType::U64(_) => "u64".into(),
        other => format!("{other:?}"),
    }
}

fn accessor(code: &str, name: &str) -> Option<String> {
    let p = code.find(&format!("fn {name}()"))?;
    let body = &code[p..];
    let open = body.find('{')?;
    let close = body.find('}')?;
    let text = body[open + 1..close].trim();
    // a Rust integer literal: an optional minus sign, then a digit, then digits and underscores
    // ("-_128" is the negation of an identifier, not a number)
    let digits = text.strip_prefix('-').unwrap_or(text);
    if !digits.starts_with(|c: char| c.is_ascii_digit()) || !digits.chars().all(|c| c.is_ascii_digit() || c == '_') {
        return Some(format!("not an integer literal: {text}"));
    }
    Some(text.replace('_', ""))
}

pub fn check(c: &Case) -> Option<Failure> {
    let text = c.asn();
    let (lo, hi) = (c.lo.unwrap_or(B::Min), c.hi.unwrap_or(B::Max));
    let want = refint(lo, hi, c.ext);
    let input_class = format!("lo-{}.hi-{}{}", if c.lo.is_none() { "none" } else { bclass(lo) }, if c.hi.is_none() { "none" } else { bclass(hi) }, if c.ext { ".extensible" } else { "" });
    let case = || json!({"kind": "c15", "asn": text, "lo": c.lo.map(bstr), "hi": c.hi.map(bstr), "ext": c.ext, "as_field": c.as_field});
    let mk = |kind: &str, e: String, o: String| Some(Failure { class: format!("c15.{kind}.{input_class}"), case: case(), expected: e, observed: o });
    let r = catch(|| {
        let m = Model::try_from(Tokenizer.parse(&text)).map_err(|e| format!("parse: {e:?}"))?.try_resolve().map_err(|e| format!("resolve: {e:?}"))?;
        let rust = m.to_rust();
        let code: String = asn1rs_model::generate::rust::RustCodeGenerator::from(rust.clone()).to_string().map_err(|_| "generator error".to_string())?.into_iter().map(|x| x.1).collect();
        Ok::<_, String>((rust, code))
    });
    let (rust, code) = match r {
        Err(p) => return mk("front-end-panic", want.into(), format!("panic: {p}")),
        Ok(Err(e)) => {
            // the front end may refuse literals it cannot represent, never silently change them
            return mk("front-end-error", want.into(), truncate(&e, 160));
        }
        Ok(Ok(x)) => x,
    };
    let ty = match rust.definitions.first().map(|d| d.value()) {
        Some(Rust::TupleStruct { r#type, .. }) => r#type.clone(),
        Some(Rust::Struct { fields, .. }) => fields[0].r#type().clone(),
        other => return mk("unexpected-model", "tuple struct or struct".into(), format!("{other:?}")),
    };
    let got = rust_type_name(&ty);
    if got != want {
        let width = |t: &str| t[1..].parse::<u32>().unwrap_or(0);
        let kind = if got.len() > 3 {
            "not-an-integer-type"
        } else if got.as_bytes()[0] != want.as_bytes()[0] {
            "wrong-signedness"
        } else if width(&got) < width(want) {
            "too-narrow"
        } else {
            "not-the-narrowest"
        };
        return mk(kind, want.into(), got);
    }
    // accessors return the declared bounds (checked for literal bounds only)
    let (min_name, max_name) = if c.as_field { ("f_min", "f_max") } else { ("value_min", "value_max") };
    if let Some(B::Lit(l)) = c.lo {
        match accessor(&code, min_name) {
            Some(a) if a == l.to_string() => {}
            other => return mk("min-accessor", l.to_string(), format!("{other:?}")),
        }
    }
    if let Some(B::Lit(h)) = c.hi {
        match accessor(&code, max_name) {
            Some(a) if a == h.to_string() => {}
            other => return mk("max-accessor", h.to_string(), format!("{other:?}")),
        }
    }
    None
}

pub fn space(thorough: bool) -> Vec<Case> {
    let b = boundary_set(thorough);
    let mut out = vec![];
    for as_field in [false, true] {
        out.push(Case { lo: None, hi: None, ext: false, as_field });
        for ext in [false, true] {
            out.push(Case { lo: Some(B::Min), hi: Some(B::Max), ext, as_field });
            for &x in &b {
                out.push(Case { lo: Some(B::Min), hi: Some(B::Lit(x)), ext, as_field });
                out.push(Case { lo: Some(B::Lit(x)), hi: Some(B::Max), ext, as_field });
            }
            if as_field && !thorough {
                continue; // the field form repeats the full grid only in the thorough tier
            }
            for &l in &b {
                for &h in &b {
                    if l <= h {
                        out.push(Case { lo: Some(B::Lit(l)), hi: Some(B::Lit(h)), ext, as_field });
                    }
                }
            }
        }
    }
    out
}

pub fn run(args: &Args) -> ! {
    let mut report = Report::new(args, "exploration");
    let sp = space(args.tier.is_thorough());
    let fails: Vec<Option<Failure>> = sp.par_iter().map(check).collect();
    let mut agg: BTreeMap<String, (u64, Failure)> = BTreeMap::new();
    for f in fails.into_iter().flatten() {
        agg.entry(f.class.clone()).or_insert((0, f)).0 += 1;
    }
    for (k, (n, f)) in agg {
        report.merge(k, n, f);
    }
    let mut cov = Map::new();
    cov.insert("exhaustive".into(), json!(true));
    cov.insert("evaluations".into(), json!(sp.len()));
    cov.insert("distinct_nontrivial".into(), json!(sp.iter().filter(|c| c.lo.is_some()).count()));
    cov.insert("boundary_set_size".into(), json!(boundary_set(args.tier.is_thorough()).len()));
    cov.insert("rule".into(), json!("B = {0, +-1, +-2, +-100, +-1000} u {+-2^k + d : d in -2..2} (k in {6,7,8,15,16,31,32,62,63} quick, every k <= 63 thorough), clipped to i64. Every (min, max) in B x B with min <= max, every (MIN..b), (a..MAX), (MIN..MAX) and the unconstrained INTEGER, each plain and extensible, as a top-level type (and, thorough, as a SEQUENCE field): parse -> resolve -> to_rust -> Rust generator; the RustType must equal the independent 'narrowest type' function refint (min >= 0 => narrowest unsigned holding max; min < 0 or MIN => narrowest signed holding both; an unbounded side counts as the 64-bit extreme; extensible => 64-bit of that signedness) and the generated *_min/*_max bodies the declared literal bounds. non-trivial = constrained; all cases distinct"));
    cov.insert("samples".into(), json!([sp[sp.len() / 3].asn(), sp[sp.len() / 2].asn(), {"refint(-129..127)": refint(B::Lit(-129), B::Lit(127), false)}]));
    report.finish(cov, vec!["refint (35 lines) is the trusted reference".into()])
}

pub fn replay(case: &J) -> ! {
    let p = |v: &J| match v.as_str() {
        None => None,
        Some("MIN") => Some(B::Min),
        Some("MAX") => Some(B::Max),
        Some(x) => Some(B::Lit(x.parse().unwrap())),
    };
    let c = Case { lo: p(&case["lo"]), hi: p(&case["hi"]), ext: case["ext"].as_bool().unwrap_or(false), as_field: case["as_field"].as_bool().unwrap_or(false) };
    match check(&c) {
        None => {
            println!("ok");
            std::process::exit(0)
        }
        Some(f) => {
            println!("FAIL {} expected[{}] observed[{}]", f.class, f.expected, f.observed);
            std::process::exit(1)
        }
    }
}

//! A tiny reference lexer (X.680 clause 12 as far as the supported subset goes).
//! `items`: lexical items of a text that contains no comments (the printer's output);
//! `subtokens`: the tokens the subject's tokenizer is documented to produce for one item
//! (single-character separators, merged text) with their character offsets inside the item.

pub const SEPARATORS: &str = ":;=(){}.,[]'\"";

pub fn items(text: &str) -> Vec<String> {
    let c: Vec<char> = text.chars().collect();
    let mut out = vec![];
    let mut i = 0;
    while i < c.len() {
        let ch = c[i];
        if ch.is_whitespace() {
            i += 1;
        } else if ch == '"' {
            let mut j = i + 1;
            while j < c.len() && c[j] != '"' {
                j += 1;
            }
            out.push(c[i..=j.min(c.len() - 1)].iter().collect());
            i = j + 1;
        } else if ch == '\'' {
            let mut j = i + 1;
            while j < c.len() && c[j] != '\'' {
                j += 1;
            }
            // suffix H / B belongs to the literal
            let mut k = j + 1;
            if k < c.len() && (c[k] == 'H' || c[k] == 'B') {
                k += 1;
            }
            out.push(c[i..k.min(c.len())].iter().collect());
            i = k;
        } else if c[i..].starts_with(&[':', ':', '=']) {
            out.push("::=".into());
            i += 3;
        } else if c[i..].starts_with(&['.', '.', '.']) {
            out.push("...".into());
            i += 3;
        } else if c[i..].starts_with(&['.', '.']) {
            out.push("..".into());
            i += 2;
        } else if SEPARATORS.contains(ch) {
            out.push(ch.to_string());
            i += 1;
        } else if ch == '-' && i + 1 < c.len() && c[i + 1].is_ascii_digit() {
            // X.680 19: SignedNumber ::= number | "-" number - the sign is a lexical item of its own
            out.push("-".into());
            i += 1;
        } else {
            let mut j = i;
            while j < c.len() && !c[j].is_whitespace() && !SEPARATORS.contains(c[j]) {
                j += 1;
            }
            out.push(c[i..j].iter().collect());
            i = j;
        }
    }
    out
}

#[derive(Debug, Clone, PartialEq, Eq)]
pub struct Tok {
    pub separator: bool,
    pub text: String,
    /// character offset inside the item
    pub offset: usize,
}

pub fn subtokens(item: &str) -> Vec<Tok> {
    let mut out: Vec<Tok> = vec![];
    let mut cur: Option<(usize, String)> = None;
    for (i, ch) in item.chars().enumerate() {
        if SEPARATORS.contains(ch) {
            if let Some((o, t)) = cur.take() {
                out.push(Tok { separator: false, text: t, offset: o });
            }
            out.push(Tok { separator: true, text: ch.to_string(), offset: i });
        } else if ch == ' ' {
            if let Some((o, t)) = cur.take() {
                out.push(Tok { separator: false, text: t, offset: o });
            }
        } else {
            match &mut cur {
                Some((_, t)) => t.push(ch),
                None => cur = Some((i, ch.to_string())),
            }
        }
    }
    if let Some((o, t)) = cur.take() {
        out.push(Tok { separator: false, text: t, offset: o });
    }
    out
}

/// May the two items be written with nothing in between and still be two lexical items?
pub fn may_touch(a: &str, b: &str) -> bool {
    let single_sep = |s: &str| s.chars().count() == 1 && SEPARATORS.contains(s.chars().next().unwrap());
    let la = a.chars().last().unwrap();
    let fb = b.chars().next().unwrap();
    // keep ':' '=' and '.' runs apart so that no new multi-character item appears
    if (la == ':' || la == '=' || la == '.') && (fb == ':' || fb == '=' || fb == '.') {
        return false;
    }
    // a hyphen next to a hyphen would start a comment
    if la == '-' && fb == '-' {
        return false;
    }
    // the sign of a signed number may touch its number
    if is_sign(a) && is_number(b) {
        return true;
    }
    single_sep(a) || single_sep(b) || (SEPARATORS.contains(la) && la != '\'' && la != '"') || (SEPARATORS.contains(fb) && fb != '\'' && fb != '"')
}

pub fn is_sign(item: &str) -> bool {
    item == "-"
}

pub fn is_number(item: &str) -> bool {
    !item.is_empty() && item.chars().all(|c| c.is_ascii_digit())
}

//! Front-end engines: C13 (layout invariance), C14 (totality), C15 (INTEGER -> Rust type),
//! C07 (parsing preserves the module), C12 (value references and imports).

use vcore::report::*;

mod c07;
mod c12;
mod c13;
mod c14;
mod c15;
mod lex;
mod project;
mod seeds;

fn main() {
    let args = parse_args();
    install_quiet_panic_hook();
    if let Some(p) = &args.replay {
        let c = load_replay(p);
        match c["kind"].as_str().unwrap_or("") {
            "c07" => c07::replay(&c),
            "c12" | "c12-negative" => c12::replay(&c),
            "c13" => c13::replay(&c),
            "c14" => c14::replay(&c),
            "c15" => c15::replay(&c),
            k => machinery_error(&format!("unknown replay kind {k}")),
        }
    }
    match args.property.as_str() {
        "C07" => c07::run(&args),
        "C12" => c12::run(&args),
        "C13" => c13::run(&args),
        "C14" => c14::run(&args),
        "C15" => c15::run(&args),
        p => machinery_error(&format!("e_front does not serve {p}")),
    }
}

//! The canonical projection of the subject's `Model<Asn<Resolved>>` onto the harness' abstract
//! `Module` (a total function over the subject's PUBLIC fields/accessors), and the documented
//! normalisations applied to the EXPECTED side before comparing (DESIGN 4.3).

use asn1rs_model::asn::{Asn, Charset as SCharset, ObjectIdentifier, ObjectIdentifierComponent, Size as SSize, Tag as STag, Type};
use asn1rs_model::LiteralValue;
use asn1rs_model::Model;
use vcore::schema::*;

fn tag(t: &STag) -> Tag {
    match t {
        STag::Universal(n) => Tag::u(*n as u64),
        STag::Application(n) => Tag::a(*n as u64),
        STag::ContextSpecific(n) => Tag::c(*n as u64),
        STag::Private(n) => Tag::p(*n as u64),
    }
}

fn size(s: &SSize) -> Size {
    const MAX: usize = i64::MAX as usize;
    match s {
        SSize::Any => Size::Any,
        SSize::Fix(n, e) => Size::Fix(*n as u64, *e),
        SSize::Range(a, b, e) => Size::Range(*a as u64, if *b == MAX { None } else { Some(*b as u64) }, *e),
    }
}

fn charset(c: &SCharset) -> Charset {
    match c {
        SCharset::Utf8 => Charset::Utf8,
        SCharset::Numeric => Charset::Numeric,
        SCharset::Printable => Charset::Printable,
        SCharset::Ia5 => Charset::Ia5,
        SCharset::Visible => Charset::Visible,
    }
}

fn lit(l: &LiteralValue) -> Lit {
    match l {
        LiteralValue::Boolean(b) => Lit::Bool(*b),
        LiteralValue::String(s) => Lit::Str(s.clone()),
        LiteralValue::Integer(i) => Lit::Int(*i),
        LiteralValue::OctetString(b) => Lit::Hex(b.clone()),
        LiteralValue::EnumeratedVariant(_, v) => Lit::Enum(v.clone()),
    }
}

fn oid(o: &ObjectIdentifier) -> Vec<OidComp> {
    o.iter()
        .map(|c| match c {
            ObjectIdentifierComponent::NameForm(n) => OidComp::Name(n.clone()),
            ObjectIdentifierComponent::NumberForm(n) => OidComp::Number(*n),
            ObjectIdentifierComponent::NameAndNumberForm(n, v) => OidComp::NameNumber(n.clone(), *v),
        })
        .collect()
}

/// (type, presence) - OPTIONAL is a wrapper type in the subject's model
fn ty(t: &Type) -> (Ty, bool) {
    match t {
        Type::Boolean => (Ty::Bool, false),
        Type::Null => (Ty::Null, false),
        Type::Integer(i) => {
            let r = &i.range;
            let range = if r.0.is_none() && r.1.is_none() && !r.2 {
                None
            } else {
                Some(IntRange { lo: r.0.map_or(Bound::Min, Bound::Lit), hi: r.1.map_or(Bound::Max, Bound::Lit), ext: r.2 })
            };
            (Ty::Int { range, named: i.constants.clone() }, false)
        }
        Type::String(s, c) => (Ty::Str { cs: charset(c), size: size(s), paren: true }, false),
        Type::OctetString(s) => (Ty::OctStr { size: size(s), paren: true }, false),
        Type::BitString(b) => (Ty::BitStr { size: size(&b.size), named: b.constants.clone(), paren: true }, false),
        Type::Optional(inner) => (ty(inner).0, true),
        Type::Default(inner, _) => (ty(inner).0, false),
        Type::Sequence(l) | Type::Set(l) => {
            let comps: Vec<Comp> = l
                .fields
                .iter()
                .map(|f| {
                    let (t, opt) = ty(&f.role.r#type);
                    let presence = match (&f.role.default, opt) {
                        (Some(d), _) => Presence::Default(lit(d)),
                        (None, true) => Presence::Optional,
                        (None, false) => Presence::Mandatory,
                    };
                    Comp { name: f.name.clone(), tag: f.role.tag.as_ref().map(tag), ty: t, presence }
                })
                .collect();
            // the subject stores the index of the last root component
            (Ty::Seq { set: matches!(t, Type::Set(_)), comps, ext_after: l.extension_after.map(|i| i + 1) }, false)
        }
        Type::SequenceOf(inner, s) | Type::SetOf(inner, s) => (Ty::SeqOf { set: matches!(t, Type::SetOf(..)), size: size(s), paren: true, inner: Box::new(ty(inner).0) }, false),
        Type::Enumerated(e) => {
            let all: Vec<(String, Option<u64>)> = e.variants().map(|v| (v.name().to_string(), v.number().map(|n| n as u64))).collect();
            match e.extension_after_index() {
                None => (Ty::Enum { root: all, ext: None }, false),
                Some(i) => (Ty::Enum { root: all[..=i.min(all.len().saturating_sub(1))].to_vec(), ext: Some(all[(i + 1).min(all.len())..].to_vec()) }, false),
            }
        }
        Type::Choice(c) => {
            let alts: Vec<Alt> = c.variants().map(|v| Alt { name: v.name().to_string(), tag: v.tag.as_ref().map(tag), ty: ty(v.r#type()).0 }).collect();
            (Ty::Choice { alts, ext_after: c.extension_after_index().map(|i| i + 1) }, false)
        }
        Type::TypeReference(n, _) => (Ty::Ref(n.clone()), false),
    }
}

pub fn project(m: &Model<Asn>) -> Module {
    Module {
        name: m.name.clone(),
        oid: m.oid.as_ref().map(oid),
        imports: m.imports.iter().map(|i| Import { what: i.what.clone(), from: i.from.clone(), from_oid: i.from_oid.as_ref().map(oid) }).collect(),
        values: m.value_references.iter().map(|v| ValueDef { name: v.name.clone(), ty: ty(&v.role.r#type).0, value: lit(&v.value) }).collect(),
        defs: m.definitions.iter().map(|d| Def { name: d.0.clone(), tag: d.1.tag.as_ref().map(tag), ty: ty(&d.1.r#type).0 }).collect(),
    }
}

// ---- normalisation of the expected side -------------------------------------------------------

fn norm_size(s: &Size) -> Size {
    match s {
        Size::Range(a, Some(b), e) if a == b => Size::Fix(*a, *e),
        Size::Range(0, None, false) => Size::Any,
        other => *other,
    }
}

pub fn norm_ty(t: &Ty) -> Ty {
    match t {
        Ty::Int { range, named } => {
            // (MIN..MAX) without extension marker is no constraint at all
            let range = match range {
                Some(IntRange { lo: Bound::Min, hi: Bound::Max, ext: false }) => None,
                other => *other,
            };
            Ty::Int { range, named: named.clone() }
        }
        Ty::BitStr { size, named, .. } => Ty::BitStr { size: norm_size(size), named: named.clone(), paren: true },
        Ty::OctStr { size, .. } => Ty::OctStr { size: norm_size(size), paren: true },
        Ty::Str { cs, size, .. } => Ty::Str { cs: *cs, size: norm_size(size), paren: true },
        Ty::Seq { set, comps, ext_after } => Ty::Seq { set: *set, comps: comps.iter().map(|c| Comp { name: c.name.clone(), tag: c.tag, ty: norm_ty(&c.ty), presence: c.presence.clone() }).collect(), ext_after: *ext_after },
        Ty::SeqOf { set, size, inner, .. } => Ty::SeqOf { set: *set, size: norm_size(size), paren: true, inner: Box::new(norm_ty(inner)) },
        Ty::Choice { alts, ext_after } => Ty::Choice { alts: alts.iter().map(|a| Alt { name: a.name.clone(), tag: a.tag, ty: norm_ty(&a.ty) }).collect(), ext_after: *ext_after },
        other => other.clone(),
    }
}

pub fn normalize(m: &Module) -> Module {
    let mut name = m.name.clone();
    // documented: make_name_nice strips a trailing "Module" / "_Module"
    for suffix in ["_Module", "Module"] {
        if name.ends_with(suffix) {
            name.truncate(name.len() - suffix.len());
        }
    }
    Module {
        name,
        oid: m.oid.clone(),
        imports: m.imports.clone(),
        values: m.values.iter().map(|v| ValueDef { name: v.name.clone(), ty: norm_ty(&v.ty), value: v.value.clone() }).collect(),
        defs: m.defs.iter().map(|d| Def { name: d.name.clone(), tag: d.tag, ty: norm_ty(&d.ty) }).collect(),
    }
}

//! Seed modules for C13 / C14 (DESIGN Appendix C): each exists as an abstract `Module` and is
//! printed by the default printer; the layout engines work on its lexical items.

use vcore::schema::*;

pub fn seeds() -> Vec<(&'static str, Module)> {
    let ia5 = |s| Ty::string(Charset::Ia5, s);
    let utf = |s| Ty::string(Charset::Utf8, s);
    let mut out = vec![];
    // S12: the smallest legal module
    out.push(("s12-smallest", Module::new("Tiny").def("Flag", Ty::Bool)));
    // S1: README-like
    out.push((
        "s1-readme",
        Module::new("MyMessages").def("Header", Ty::seq(vec![Comp::new("timestamp", Ty::int_r(0, 4294967295)), Comp::new("name", utf(Size::Any)), Comp::new("opt", Ty::Bool).opt()])),
    ));
    // S2: every leaf kind once, OPTIONAL / DEFAULT, a marker
    out.push((
        "s2-leaf-kinds",
        Module::new("Kinds").def(
            "All",
            Ty::Seq {
                set: false,
                comps: vec![
                    Comp::new("b", Ty::Bool),
                    Comp::new("i", Ty::int_r(-5, 5)).default(Lit::Int(-3)),
                    Comp::new("n", Ty::Null),
                    Comp::new("o", Ty::oct(Size::Fix(2, false))).opt(),
                    Comp::new("bs", Ty::bits(Size::Range(1, Some(4), true))),
                    Comp::new("u", utf(Size::Any)).default(Lit::Str("hi".into())),
                    Comp::new("a", ia5(Size::Range(1, Some(4), false))),
                    Comp::new("e", Ty::enum_n(3)),
                    Comp::new("x", Ty::int()).opt(),
                ],
                ext_after: Some(7),
            },
        ),
    ));
    // S3: tags of all four classes on definitions, components, alternatives
    out.push((
        "s3-tags",
        Module::new("Tags")
            .def_tagged("Tagged", Tag::a(3), Ty::seq(vec![Comp::new("u", Ty::Bool).tagged(Tag::u(7)), Comp::new("c", Ty::int_r(0, 7)).tagged(Tag::c(2)), Comp::new("p", Ty::Null).tagged(Tag::p(9))]))
            .def("Pick", Ty::choice(vec![Alt::new("a", Ty::Bool).tagged(Tag::a(1)), Alt::new("b", Ty::int()).tagged(Tag::c(0))])),
    ));
    // S4: SIZE forms in both spellings
    out.push((
        "s4-sizes",
        Module::new("Sizes")
            .def("A", Ty::Str { cs: Charset::Ia5, size: Size::Fix(3, false), paren: false })
            .def("B", Ty::OctStr { size: Size::Range(1, Some(4), true), paren: true })
            .def("C", Ty::SeqOf { set: false, size: Size::Range(0, Some(3), false), paren: false, inner: Box::new(Ty::Bool) })
            .def("D", Ty::SeqOf { set: true, size: Size::Fix(2, true), paren: true, inner: Box::new(Ty::int_r(0, 7)) })
            .def("E", Ty::BitStr { size: Size::Range(2, None, false), named: vec![], paren: true }),
    ));
    // S5: ENUMERATED with numbers and marker, named numbers, named bits
    out.push((
        "s5-named",
        Module::new("Named")
            .def("Colour", Ty::Enum { root: vec![("red".into(), Some(0)), ("green".into(), Some(5))], ext: Some(vec![("blue".into(), Some(8))]) })
            .def("Level", Ty::Int { range: Some(IntRange::lit(0, 3)), named: vec![("low".into(), 0), ("high".into(), 3)] })
            .def("Flags", Ty::BitStr { size: Size::Fix(2, false), named: vec![("first".into(), 0), ("second".into(), 1)], paren: true }),
    ));
    // S6: module OID (three component forms), IMPORTS, value definitions
    let mut m = Module::new("WithOid").def("Uses", Ty::seq(vec![Comp::new("a", Ty::r("Other"))]));
    m.oid = Some(vec![OidComp::Name("iso".into()), OidComp::NameNumber("org".into(), 3), OidComp::Number(42)]);
    m.imports = vec![Import { what: vec!["Other".into(), "Second".into()], from: "Elsewhere".into(), from_oid: Some(vec![OidComp::Number(1), OidComp::Number(2)]) }, Import { what: vec!["Third".into()], from: "Plain".into(), from_oid: None }];
    m.values = vec![
        ValueDef { name: "max-len".into(), ty: Ty::int(), value: Lit::Int(7) },
        ValueDef { name: "flag".into(), ty: Ty::Bool, value: Lit::Bool(true) },
        ValueDef { name: "greeting".into(), ty: utf(Size::Any), value: Lit::Str("hello".into()) },
        ValueDef { name: "blob".into(), ty: Ty::oct(Size::Any), value: Lit::Hex(vec![0xAB, 0xCD]) },
    ];
    out.push(("s6-oid-imports-values", m));
    // S8: inline anonymous types three levels deep
    out.push((
        "s8-inline",
        Module::new("Inline").def(
            "Outer",
            Ty::seq(vec![Comp::new("mid", Ty::seq(vec![Comp::new("pick", Ty::choice(vec![Alt::new("x", Ty::enum_n(2)), Alt::new("y", Ty::seq_of(Size::Any, Ty::seq(vec![Comp::new("z", Ty::Bool)])))]))]))]),
        ),
    ));
    // S9: negative bounds, MIN/MAX, extensible ranges
    out.push((
        "s9-ranges",
        Module::new("Ranges")
            .def("A", Ty::int_r(-128, 127))
            .def("B", Ty::int_range(IntRange { lo: Bound::Min, hi: Bound::Lit(5), ext: false }))
            .def("C", Ty::int_range(IntRange { lo: Bound::Lit(1), hi: Bound::Max, ext: true }))
            .def("D", Ty::int_range(IntRange::lit(0, 255).ext())),
    ));
    // S14: bounds of different widths: one character less or one token swapped gives a reversed range whose
    // bounds select different integer types
    out.push((
        "s14-wide-ranges",
        Module::new("Wide").def("A", Ty::int_r(1000, 2000)).def("B", Ty::int_r(-300, -5)).def("C", Ty::int_r(100, 255)).def("D", Ty::seq(vec![Comp::new("x", Ty::int_r(70000, 300000)), Comp::new("y", Ty::int_r(-40000, -1))])),
    ));
    // S10: string DEFAULTs with a space inside the quotes
    out.push((
        "s10-literals",
        Module::new("Literals").def("T", Ty::seq(vec![Comp::new("s", utf(Size::Any)).default(Lit::Str("a b".into())), Comp::new("t", utf(Size::Any)).default(Lit::Str("x--y /* z".into())), Comp::new("i", Ty::int_r(0, 9)).default(Lit::Int(4)), Comp::new("b", Ty::Bool).default(Lit::Bool(false)), Comp::new("h", Ty::oct(Size::Any)).default(Lit::Hex(vec![0xCA, 0xFE]))])),
    ));
    // S15: a chain of type aliases that ends in an ENUMERATED, and DEFAULTs that name its items through the chain and
    // directly: one replaced token closes the chain to a cycle
    out.push((
        "s15-aliases",
        Module::new("Aliases")
            .def("A", Ty::r("B"))
            .def("B", Ty::r("C"))
            .def("C", Ty::Enum { root: vec![("x".into(), None), ("y".into(), None)], ext: None })
            .def("T", Ty::seq(vec![Comp::new("e", Ty::r("A")).default(Lit::Enum("x".into())), Comp::new("g", Ty::r("C")).default(Lit::Enum("y".into()))])),
    ));
    // S13: recursion through untagged CHOICE alternatives (directly, and two CHOICEs naming each other), through a
    // list and through an OPTIONAL component: tag resolution and type conversion must terminate
    out.push((
        "s13-recursive",
        Module::new("Rec")
            .def("Expr", Ty::choice(vec![Alt::new("literal", Ty::int()), Alt::new("negated", Ty::r("Expr"))]))
            .def("A", Ty::choice(vec![Alt::new("x", Ty::Bool), Alt::new("y", Ty::r("B"))]))
            .def("B", Ty::choice(vec![Alt::new("p", Ty::Null), Alt::new("q", Ty::r("A"))]))
            .def("Tree", Ty::seq(vec![Comp::new("kids", Ty::seq_of(Size::Any, Ty::r("Tree"))), Comp::new("next", Ty::r("Tree")).opt()]))
            // a SET with an explicit tag next to a component whose own tag cannot be determined (the recursive CHOICE)
            .def("Bag", Ty::Seq { set: true, comps: vec![Comp::new("e", Ty::r("Expr")), Comp::new("x", Ty::Bool).tagged(Tag::c(1))], ext_after: None }),
    ));
    out
}

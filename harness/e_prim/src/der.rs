//! C20 — DER primitives: every case is write -> read on the real BasicWrite/BasicRead (and the
//! BasicWriter/BasicReader on top), oracle = identity + exact byte consumption.

use asn1rs::descriptor::numbers::{self, Number};
use asn1rs::descriptor::{boolean, common, enumerated, Reader, Writer};
use asn1rs::protocol::basic::{BasicRead, BasicWrite, DER};
use asn1rs_model::asn::Tag;
use serde_json::{json, Map, Value};
use std::collections::BTreeMap;
use vcore::refbits::hex;
use vcore::report::*;

struct TagC<const CLASS: u8, const N: usize>;
impl<const CLASS: u8, const N: usize> common::Constraint for TagC<CLASS, N> {
    const TAG: Tag = match CLASS {
        0 => Tag::Universal(N),
        1 => Tag::Application(N),
        2 => Tag::ContextSpecific(N),
        _ => Tag::Private(N),
    };
}
impl<const CLASS: u8, const N: usize, T: Number> numbers::Constraint<T> for TagC<CLASS, N> {}
impl<const CLASS: u8, const N: usize> boolean::Constraint for TagC<CLASS, N> {}

#[derive(Debug, PartialEq, Clone)]
struct En<const N: u64>(u64);
impl<const N: u64> common::Constraint for En<N> {
    const TAG: Tag = Tag::DEFAULT_ENUMERATED;
}
impl<const N: u64> enumerated::Constraint for En<N> {
    const NAME: &'static str = "En";
    const VARIANT_COUNT: u64 = N;
    const STD_VARIANT_COUNT: u64 = N;
    fn to_choice_index(&self) -> u64 {
        self.0
    }
    fn from_choice_index(index: u64) -> Option<Self> {
        if index < N { Some(En(index)) } else { None }
    }
}

/// an extensible ENUMERATED: STD of its N items stand in front of the extension marker
#[derive(Debug, PartialEq, Clone)]
struct EnX<const N: u64, const STD: u64>(u64);
impl<const N: u64, const STD: u64> common::Constraint for EnX<N, STD> {
    const TAG: Tag = Tag::DEFAULT_ENUMERATED;
}
impl<const N: u64, const STD: u64> enumerated::Constraint for EnX<N, STD> {
    const NAME: &'static str = "EnX";
    const VARIANT_COUNT: u64 = N;
    const STD_VARIANT_COUNT: u64 = STD;
    const EXTENSIBLE: bool = true;
    fn to_choice_index(&self) -> u64 {
        self.0
    }
    fn from_choice_index(index: u64) -> Option<Self> {
        if index < N { Some(EnX(index)) } else { None }
    }
}

/// INTEGER constraints as the generator emits them for (LO..HI), (LO..MAX) and their extensible forms
struct Bounds<const LO: i64, const HI: i64, const HAS_HI: bool, const EXT: bool>;
impl<const LO: i64, const HI: i64, const HAS_HI: bool, const EXT: bool> common::Constraint for Bounds<LO, HI, HAS_HI, EXT> {
    const TAG: Tag = Tag::DEFAULT_INTEGER;
}
impl<const LO: i64, const HI: i64, const HAS_HI: bool, const EXT: bool, T: Number> numbers::Constraint<T> for Bounds<LO, HI, HAS_HI, EXT> {
    const MIN: Option<i64> = Some(LO);
    const MAX: Option<i64> = if HAS_HI { Some(HI) } else { None };
    const EXTENSIBLE: bool = EXT;
}

struct Acc {
    evals: u64,
    schedules: u64,
    fails: BTreeMap<String, (u64, Failure)>,
    samples: Vec<Value>,
}

impl Acc {
    fn fail(&mut self, class: &str, case: Value, expected: String, observed: String) {
        let e = self.fails.entry(class.to_string()).or_insert((0, Failure { class: class.to_string(), case, expected, observed }));
        e.0 += 1;
    }
}

const SENTINEL: [u8; 3] = [0xDE, 0xAD, 0x5A];

/// The environment of the reader: a byte source that may answer a read with fewer octets than asked for
/// (`Read::read` is allowed to; BufReader, Chain, sockets and pipes do). A read never goes across one of
/// the `stops`; without stops it behaves like a slice.
struct Src<'a> {
    data: &'a [u8],
    pos: usize,
    stops: Vec<usize>,
}

impl<'a> Src<'a> {
    fn new(data: &'a [u8], stops: Vec<usize>) -> Self {
        Src { data, pos: 0, stops }
    }
    fn rest(&self) -> &[u8] {
        &self.data[self.pos..]
    }
}

impl<'a> std::io::Read for Src<'a> {
    fn read(&mut self, buf: &mut [u8]) -> std::io::Result<usize> {
        let mut end = self.data.len().min(self.pos + buf.len());
        if let Some(s) = self.stops.iter().find(|s| **s > self.pos && **s < end) {
            end = *s;
        }
        let n = end - self.pos;
        buf[..n].copy_from_slice(&self.data[self.pos..end]);
        self.pos = end;
        Ok(n)
    }
}

/// every schedule of short reads with at most one stop, and the one with a stop after every octet
fn schedules(len: usize) -> Vec<Vec<usize>> {
    let mut v = vec![vec![]];
    for p in 1..len {
        v.push(vec![p]);
    }
    if len > 2 {
        v.push((1..len).collect());
    }
    v
}

/// write with `w`, then read with `r` from (bytes) and from (bytes + sentinel); checks identity
/// and exact consumption. `r` returns (value as string, remaining slice length).
fn roundtrip(
    acc: &mut Acc,
    class: &str,
    case: Value,
    expected: String,
    w: &dyn Fn(&mut Vec<u8>) -> Result<(), String>,
    r: &dyn Fn(&mut Src) -> Result<String, String>,
) {
    acc.evals += 1;
    let mut bytes = Vec::new();
    match catch(|| w(&mut bytes)) {
        Err(p) => return acc.fail(&format!("{class}.write-panic"), case, "Ok".into(), format!("panic: {p}")),
        Ok(Err(e)) => return acc.fail(&format!("{class}.write-err"), case, "Ok".into(), format!("Err({e})")),
        Ok(Ok(())) => {}
    }
    for with_sentinel in [false, true] {
        let mut buf = bytes.clone();
        if with_sentinel {
            buf.extend_from_slice(&SENTINEL);
        }
        let want_rest = if with_sentinel { 3 } else { 0 };
        for stops in schedules(buf.len()) {
            acc.schedules += 1;
            let env = if stops.is_empty() { String::new() } else { format!(".short-reads") };
            let how = if stops.is_empty() { String::new() } else { format!(", reads stop at {stops:?}") };
            let mut slice = Src::new(&buf[..], stops);
            let got = catch(|| r(&mut slice));
            match got {
                Err(p) => return acc.fail(&format!("{class}.read-panic{env}"), case, expected, format!("panic: {p} (bytes {}{how})", hex(&bytes))),
                Ok(Err(e)) => return acc.fail(&format!("{class}.read-err{env}"), case, expected, format!("Err({e}) (bytes {}{how})", hex(&bytes))),
                Ok(Ok(v)) => {
                    if v != expected {
                        return acc.fail(&format!("{class}.value{env}"), case, expected, format!("{v} (bytes {}{how})", hex(&bytes)));
                    }
                    if slice.rest().len() != want_rest || (with_sentinel && slice.rest() != SENTINEL) {
                        return acc.fail(&format!("{class}.consumed{env}"), case, format!("{} bytes consumed", bytes.len()), format!("{} bytes consumed (bytes {}{how})", buf.len() - slice.rest().len(), hex(&bytes)));
                    }
                }
            }
        }
    }
}

fn lengths(thorough: bool) -> Vec<u64> {
    let mut v: Vec<u128> = (0..=300).collect();
    let d = if thorough { 300i128 } else { 2 };
    for k in 1..=9u32 {
        for base in [1u128 << (7 * k), 1u128 << (8 * k.min(8))] {
            for x in -d..=d {
                let y = base as i128 + x;
                if y >= 0 {
                    v.push(y as u128);
                }
            }
        }
    }
    for x in 0..=(if thorough { 300u128 } else { 2 }) {
        v.push(u64::MAX as u128 - x);
    }
    let mut v: Vec<u64> = v.into_iter().filter(|x| *x <= u64::MAX as u128).map(|x| x as u64).collect();
    v.sort();
    v.dedup();
    v
}

fn int_boundaries(min: i128, max: i128) -> Vec<i128> {
    let mut v = vec![min, min + 1, -1, 0, 1, max - 1, max];
    for k in 1..=8u32 {
        for base in [1i128 << (8 * k - 1), 1i128 << (8 * k)] {
            for d in [-1i128, 0, 1] {
                v.push(base + d);
                v.push(-base + d);
            }
        }
    }
    for x in -300i128..=300 {
        v.push(x);
    }
    let mut v: Vec<i128> = v.into_iter().filter(|x| *x >= min && *x <= max).collect();
    v.sort();
    v.dedup();
    v
}

macro_rules! number_cases {
    ($acc:expr, $($T:ident),+) => {$(
        for v in int_boundaries($T::MIN as i128, $T::MAX as i128) {
            let val = v as $T;
            let class = format!("number.{}.{}", stringify!($T), if v < 0 { "negative" } else if v > i64::MAX as i128 { "above-i64" } else { "non-negative" });
            roundtrip($acc, &class, json!({"kind":"der","op":"number","type":stringify!($T),"v":v.to_string()}), val.to_string(),
                &|b| { let mut w = DER::writer(b); w.write_number::<$T, TagC<0, 2>>(val).map_err(|e| format!("{e:?}")) },
                &|s| { let mut r = DER::reader(s); r.read_number::<$T, TagC<0, 2>>().map(|x| x.to_string()).map_err(|e| format!("{e:?}")) });
        }
    )+};
}

macro_rules! bounded_number_cases {
    ($acc:expr, $T:ident, $LO:literal, $HI:literal, $HAS_HI:literal, $EXT:literal) => {{
        const LO_: i64 = $LO;
        const HI_: i64 = $HI;
        for v in int_boundaries($T::MIN as i128, $T::MAX as i128) {
            // every value the Rust type holds and the root of the constraint permits (an open upper bound permits all
            // of them; an extensible constraint permits everything, but only root values are taken here)
            if v < LO_ as i128 || ($HAS_HI && v > HI_ as i128) {
                continue;
            }
            let val = v as $T;
            let class = format!("number-bounded.{}.{}", stringify!($T), if v > i64::MAX as i128 { "above-i64" } else if v < 0 { "negative" } else { "non-negative" });
            roundtrip($acc, &class, json!({"kind":"der","op":"number-bounded","type":stringify!($T),"lo":LO_,"hi":HI_,"has_hi":$HAS_HI,"ext":$EXT,"v":v.to_string()}), val.to_string(),
                &|b| { let mut w = DER::writer(b); w.write_number::<$T, Bounds<$LO, $HI, $HAS_HI, $EXT>>(val).map_err(|e| format!("{e:?}")) },
                &|s| { let mut r = DER::reader(s); r.read_number::<$T, Bounds<$LO, $HI, $HAS_HI, $EXT>>().map(|x| x.to_string()).map_err(|e| format!("{e:?}")) });
        }
    }};
}

macro_rules! enumx_cases {
    ($acc:expr, $(($n:literal, $std:literal)),+) => {$(
        for i in 0..$n as u64 {
            roundtrip($acc, if i < $std { "enumerated-extensible.root-item" } else { "enumerated-extensible.extension-item" }, json!({"kind":"der","op":"enumerated-extensible","items":$n,"root_items":$std,"index":i}), format!("{:?}", EnX::<$n, $std>(i)),
                &|b| { let mut w = DER::writer(b); w.write_enumerated(&EnX::<$n, $std>(i)).map_err(|e| format!("{e:?}")) },
                &|s| { let mut r = DER::reader(s); r.read_enumerated::<EnX<$n, $std>>().map(|x| format!("{x:?}")).map_err(|e| format!("{e:?}")) });
        }
    )+};
}

macro_rules! tag_cases {
    ($acc:expr, $class:literal, $($n:literal),+) => {$(
        {
            let tag = <TagC<$class, $n> as common::Constraint>::TAG;
            roundtrip($acc, "identifier", json!({"kind":"der","op":"identifier","class":$class,"number":$n}), format!("{tag:?}"),
                &|b| b.write_identifier(tag).map_err(|e| format!("{e:?}")),
                &|s| s.read_identifier().map(|t| format!("{t:?}")).map_err(|e| format!("{e:?}")));
            // the tag as carried by a whole BOOLEAN and INTEGER TLV
            roundtrip($acc, "tagged-boolean", json!({"kind":"der","op":"tagged-boolean","class":$class,"number":$n}), "true".into(),
                &|b| { let mut w = DER::writer(b); w.write_boolean::<TagC<$class, $n>>(true).map_err(|e| format!("{e:?}")) },
                &|s| { let mut r = DER::reader(s); r.read_boolean::<TagC<$class, $n>>().map(|x| x.to_string()).map_err(|e| format!("{e:?}")) });
            roundtrip($acc, "tagged-integer", json!({"kind":"der","op":"tagged-integer","class":$class,"number":$n}), "-77".into(),
                &|b| { let mut w = DER::writer(b); w.write_number::<i16, TagC<$class, $n>>(-77).map_err(|e| format!("{e:?}")) },
                &|s| { let mut r = DER::reader(s); r.read_number::<i16, TagC<$class, $n>>().map(|x| x.to_string()).map_err(|e| format!("{e:?}")) });
        }
    )+};
}

macro_rules! all_tags {
    ($acc:expr, $class:literal) => {
        tag_cases!($acc, $class, 0, 1, 2, 3, 4, 5, 6, 7, 8, 9, 10, 11, 12, 13, 14, 15, 16, 17, 18, 19, 20, 21, 22, 23, 24, 25, 26, 27, 28, 29, 30);
    };
}

macro_rules! enum_cases {
    ($acc:expr, $($n:literal),+) => {$(
        for i in 0..$n as u64 {
            roundtrip($acc, "enumerated", json!({"kind":"der","op":"enumerated","items":$n,"index":i}), format!("{:?}", En::<$n>(i)),
                &|b| { let mut w = DER::writer(b); w.write_enumerated(&En::<$n>(i)).map_err(|e| format!("{e:?}")) },
                &|s| { let mut r = DER::reader(s); r.read_enumerated::<En<$n>>().map(|x| format!("{x:?}")).map_err(|e| format!("{e:?}")) });
        }
    )+};
}

fn explore(thorough: bool) -> Acc {
    let mut acc = Acc { evals: 0, schedules: 0, fails: BTreeMap::new(), samples: vec![] };
    // lengths
    for n in lengths(thorough) {
        let class = if n <= 127 { "length.short" } else { "length.long" };
        roundtrip(&mut acc, class, json!({"kind":"der","op":"length","n":n.to_string()}), n.to_string(),
            &|b| b.write_length(n).map_err(|e| format!("{e:?}")),
            &|s| s.read_length().map(|x| x.to_string()).map_err(|e| format!("{e:?}")));
    }
    // identifiers: 4 classes x 0..30
    all_tags!(&mut acc, 0);
    all_tags!(&mut acc, 1);
    all_tags!(&mut acc, 2);
    all_tags!(&mut acc, 3);
    // integers of every Rust type
    number_cases!(&mut acc, u8, u16, u32, u64, i8, i16, i32, i64);
    // raw integer primitives with their explicit byte length
    for v in int_boundaries(i64::MIN as i128, i64::MAX as i128) {
        let val = v as i64;
        acc.evals += 1;
        let mut bytes = Vec::new();
        let r = catch(|| bytes.write_integer_i64(val).map_err(|e| format!("{e:?}")));
        let case = json!({"kind":"der","op":"raw-i64","v":v.to_string()});
        match r {
            Ok(Ok(())) => {
                let n = bytes.len() as u32;
                for stops in schedules(bytes.len()) {
                    acc.schedules += 1;
                    let mut s = Src::new(&bytes[..], stops.clone());
                    match catch(|| s.read_integer_i64(n).map_err(|e| format!("{e:?}"))) {
                        Ok(Ok(x)) if x == val && s.rest().is_empty() => {}
                        other => {
                            acc.fail(&format!("raw-i64.{}{}", if val < 0 { "negative" } else { "non-negative" }, if stops.is_empty() { "" } else { ".short-reads" }), case.clone(), val.to_string(), format!("{other:?} bytes {} reads stop at {stops:?}", hex(&bytes)));
                            break;
                        }
                    }
                }
            }
            other => acc.fail("raw-i64.write", case, "Ok".into(), format!("{other:?}")),
        }
    }
    for n in lengths(thorough) {
        acc.evals += 1;
        let mut bytes = Vec::new();
        let r = catch(|| bytes.write_integer_u64(n).map_err(|e| format!("{e:?}")));
        let case = json!({"kind":"der","op":"raw-u64","v":n.to_string()});
        match r {
            Ok(Ok(())) => {
                let k = bytes.len() as u32;
                for stops in schedules(bytes.len()) {
                    acc.schedules += 1;
                    let mut s = Src::new(&bytes[..], stops.clone());
                    match catch(|| s.read_integer_u64(k).map_err(|e| format!("{e:?}"))) {
                        Ok(Ok(x)) if x == n && s.rest().is_empty() => {}
                        other => {
                            acc.fail(if stops.is_empty() { "raw-u64" } else { "raw-u64.short-reads" }, case.clone(), n.to_string(), format!("{other:?} bytes {} reads stop at {stops:?}", hex(&bytes)));
                            break;
                        }
                    }
                }
            }
            other => acc.fail("raw-u64.write", case, "Ok".into(), format!("{other:?}")),
        }
    }
    // booleans: written value, then the value octet overwritten with every 0..=255
    for val in [false, true] {
        roundtrip(&mut acc, "boolean", json!({"kind":"der","op":"boolean","v":val}), val.to_string(),
            &|b| { let mut w = DER::writer(b); w.write_boolean::<boolean::NoConstraint>(val).map_err(|e| format!("{e:?}")) },
            &|s| { let mut r = DER::reader(s); r.read_boolean::<boolean::NoConstraint>().map(|x| x.to_string()).map_err(|e| format!("{e:?}")) });
        roundtrip(&mut acc, "boolean-raw", json!({"kind":"der","op":"boolean-raw","v":val}), val.to_string(),
            &|b| b.write_boolean(val).map_err(|e| format!("{e:?}")),
            &|s| s.read_boolean().map(|x| x.to_string()).map_err(|e| format!("{e:?}")));
    }
    for octet in 0..=255u8 {
        roundtrip(&mut acc, if octet == 0 { "boolean-octet.zero" } else { "boolean-octet.nonzero" }, json!({"kind":"der","op":"boolean-octet","octet":octet}), (octet != 0).to_string(),
            &|b| {
                let mut w = DER::writer(&mut *b);
                w.write_boolean::<boolean::NoConstraint>(true).map_err(|e| format!("{e:?}"))?;
                let n = b.len();
                b[n - 1] = octet;
                Ok(())
            },
            &|s| { let mut r = DER::reader(s); r.read_boolean::<boolean::NoConstraint>().map(|x| x.to_string()).map_err(|e| format!("{e:?}")) });
    }
    // enumerated: every index of enums with these item counts
    enum_cases!(&mut acc, 1, 2, 3, 4, 5, 126, 127, 128, 129, 130, 254, 255, 256, 257, 258, 300);
    if thorough {
        enum_cases!(&mut acc, 32767, 32768, 32769, 65535, 65536, 65537, 70000);
    } else {
        enum_cases!(&mut acc, 32769, 65537);
    }
    // extensible ENUMERATED types: items behind the extension marker are values like the others
    enumx_cases!(&mut acc, (1, 1), (2, 1), (3, 1), (4, 2), (5, 5), (130, 127), (130, 128), (260, 2), (300, 255), (300, 256));
    // INTEGER under the constraints the generator emits: (0..MAX), (1..MAX), (0..255), (-5..5), extensible forms
    bounded_number_cases!(&mut acc, u64, 0, 0, false, false);
    bounded_number_cases!(&mut acc, u64, 1, 0, false, false);
    bounded_number_cases!(&mut acc, u64, 1, 9223372036854775807, true, false);
    bounded_number_cases!(&mut acc, u8, 0, 255, true, false);
    bounded_number_cases!(&mut acc, u16, 256, 65535, true, false);
    bounded_number_cases!(&mut acc, i8, -5, 5, true, false);
    bounded_number_cases!(&mut acc, i64, -9223372036854775808, 9223372036854775807, true, false);
    bounded_number_cases!(&mut acc, i64, -5, 5, true, true);
    bounded_number_cases!(&mut acc, u64, 5, 10, true, true);
    let s1 = { let mut b = Vec::new(); b.write_length(16384).ok(); hex(&b) };
    let s2 = { let mut b = Vec::new(); { let mut w = DER::writer(&mut b); w.write_number::<i16, TagC<0, 2>>(-129).ok(); } hex(&b) };
    let s3 = { let mut b = Vec::new(); b.write_identifier(Tag::Private(30)).ok(); hex(&b) };
    let s4 = { let mut b = Vec::new(); { let mut w = DER::writer(&mut b); w.write_enumerated(&En::<300>(299)).ok(); } hex(&b) };
    acc.samples = vec![
        json!({"op":"length","n":"16384","bytes": s1}),
        json!({"op":"number i16 -129","bytes": s2}),
        json!({"op":"identifier [PRIVATE 30]","bytes": s3}),
        json!({"op":"enumerated index 299 of 300","bytes": s4}),
    ];
    acc
}

pub fn run(args: &Args) -> ! {
    let mut report = Report::new(args, "exploration");
    let acc = explore(args.tier.is_thorough());
    let evals = acc.evals;
    let schedules = acc.schedules;
    for (k, (n, f)) in acc.fails {
        report.merge(k, n, f);
    }
    let mut cov = Map::new();
    cov.insert("exhaustive".into(), json!(true));
    cov.insert("evaluations".into(), json!(evals));
    cov.insert("distinct_nontrivial".into(), json!(evals));
    cov.insert("schedules".into(), json!(schedules));
    cov.insert("rule".into(), json!("each evaluation = one distinct (operation, value) written with the real DER writer and read back (exact buffer; buffer followed by 3 sentinel bytes) with the real DER reader under every schedule of the byte source with at most one short read (a read stops at offset p, for every p inside the buffer) and under the schedule that stops after every octet (Read::read may return fewer octets than asked for): same value, same consumption under every schedule; spaces: lengths 0..300 and +-2 (quick) / +-300 (thorough) around every 2^(7k), 2^(8k) and u64::MAX; 4 classes x tag numbers 0..30 (raw identifier, BOOLEAN TLV, INTEGER TLV); all 8 Rust integer types at {min,min+1,+-2^(8k-1)+-1,+-2^(8k)+-1,-300..300,max-1,max}; BOOLEAN value octet 0..255; every index of ENUMERATED types with 1..70000 items and of extensible ENUMERATED types (items in front of and behind the marker); INTEGER values of u64 / u8 / u16 / i8 / i64 under the bounded constraints the generator emits ((0..MAX), (1..MAX), (1..i64::MAX), closed ranges, extensible ranges); every case is distinct and non-trivial (>= 1 byte written)"));
    cov.insert("samples".into(), Value::Array(acc.samples));
    report.finish(cov, vec!["oracle is identity + exact consumption, as the statement says; canonical (minimal) DER form is not demanded".into()])
}

pub fn replay(case: &Value) -> ! {
    // the DER space is tiny: re-run it and report the failures that match the recorded case
    let run = || {
        let acc = explore(true);
        let mut v = vec![];
        for (k, (_, f)) in acc.fails {
            if f.case["op"] == case["op"] {
                v.push(format!("FAIL {k} case[{}] expected[{}] observed[{}]", f.case, f.expected, f.observed));
            }
        }
        v
    };
    let a = run();
    if a != run() {
        machinery_error("replay not deterministic");
    }
    if a.is_empty() {
        println!("ok (no failure for op {})", case["op"]);
        std::process::exit(0)
    }
    println!("{}", a.join("\n"));
    std::process::exit(1)
}

//! C10 — PER primitive codecs vs. `refper` primitives, bounded-exhaustive over (lb, ub, v).
//! C20 — DER primitives round trip (identifier, length, BOOLEAN, INTEGER, ENUMERATED).

use asn1rs::protocol::per::unaligned::buffer::{BitBuffer, Bits};
use asn1rs::protocol::per::unaligned::ScopedBitRead;
use asn1rs::protocol::per::{PackedRead, PackedWrite};
use serde_json::{json, Map, Value};
use std::collections::BTreeMap;
use vcore::refbits::{hex, pack, unpack_n};
use vcore::refper::{self, Sink};
use vcore::report::*;
use vcore::subject::per_err_kind;

mod der;

// ---------------------------------------------------------------------------------------------

#[derive(Clone, Debug, PartialEq)]
enum Prim {
    Constrained { lb: i64, ub: i64, v: i64 },
    Semi { lb: i64, v: i64 },
    Unconstrained { v: i64 },
    NormallySmall { n: u64 },
    /// a normally small LENGTH (11.9.3.4); `n` is the length itself (>= 1), the subject's API takes n - 1
    NormallySmallLength { n: u64 },
    TwosComplement { bit_len: u64, v: i64 },
    Length { lb: Option<u64>, ub: Option<u64>, n: u64 },
    Index { choice: bool, std: u64, ext: bool, i: u64 },
    Octets { lb: Option<u64>, ub: Option<u64>, ext: bool, len: u64, pat: u8 },
    BitStr { lb: Option<u64>, ub: Option<u64>, ext: bool, off: u64, len: u64, pat: u8 },
}

fn opt_json(o: Option<u64>) -> Value {
    o.map_or(Value::Null, |v| json!(v.to_string()))
}
fn opt_from(v: &Value) -> Option<u64> {
    v.as_str().map(|s| s.parse().unwrap())
}
fn i(v: &Value) -> i64 {
    v.as_str().unwrap().parse().unwrap()
}
fn u(v: &Value) -> u64 {
    v.as_str().unwrap().parse().unwrap()
}

impl Prim {
    fn to_json(&self) -> Value {
        match self {
            Prim::Constrained { lb, ub, v } => json!({"kind":"prim","op":"constrained","lb":lb.to_string(),"ub":ub.to_string(),"v":v.to_string()}),
            Prim::Semi { lb, v } => json!({"kind":"prim","op":"semi","lb":lb.to_string(),"v":v.to_string()}),
            Prim::Unconstrained { v } => json!({"kind":"prim","op":"unconstrained","v":v.to_string()}),
            Prim::NormallySmall { n } => json!({"kind":"prim","op":"normally_small","n":n.to_string()}),
            Prim::NormallySmallLength { n } => json!({"kind":"prim","op":"normally_small_length","n":n.to_string()}),
            Prim::TwosComplement { bit_len, v } => json!({"kind":"prim","op":"2s","bit_len":bit_len.to_string(),"v":v.to_string()}),
            Prim::Length { lb, ub, n } => json!({"kind":"prim","op":"length","lb":opt_json(*lb),"ub":opt_json(*ub),"n":n.to_string()}),
            Prim::Index { choice, std, ext, i } => json!({"kind":"prim","op":"index","choice":choice,"std":std.to_string(),"ext":ext,"i":i.to_string()}),
            Prim::Octets { lb, ub, ext, len, pat } => json!({"kind":"prim","op":"octets","lb":opt_json(*lb),"ub":opt_json(*ub),"ext":ext,"len":len.to_string(),"pat":pat}),
            Prim::BitStr { lb, ub, ext, off, len, pat } => json!({"kind":"prim","op":"bitstr","lb":opt_json(*lb),"ub":opt_json(*ub),"ext":ext,"off":off.to_string(),"len":len.to_string(),"pat":pat}),
        }
    }
    fn from_json(j: &Value) -> Prim {
        match j["op"].as_str().unwrap() {
            "constrained" => Prim::Constrained { lb: i(&j["lb"]), ub: i(&j["ub"]), v: i(&j["v"]) },
            "semi" => Prim::Semi { lb: i(&j["lb"]), v: i(&j["v"]) },
            "unconstrained" => Prim::Unconstrained { v: i(&j["v"]) },
            "normally_small" => Prim::NormallySmall { n: u(&j["n"]) },
            "normally_small_length" => Prim::NormallySmallLength { n: u(&j["n"]) },
            "2s" => Prim::TwosComplement { bit_len: u(&j["bit_len"]), v: i(&j["v"]) },
            "length" => Prim::Length { lb: opt_from(&j["lb"]), ub: opt_from(&j["ub"]), n: u(&j["n"]) },
            "index" => Prim::Index { choice: j["choice"].as_bool().unwrap(), std: u(&j["std"]), ext: j["ext"].as_bool().unwrap(), i: u(&j["i"]) },
            "octets" => Prim::Octets { lb: opt_from(&j["lb"]), ub: opt_from(&j["ub"]), ext: j["ext"].as_bool().unwrap(), len: u(&j["len"]), pat: j["pat"].as_u64().unwrap() as u8 },
            "bitstr" => Prim::BitStr { lb: opt_from(&j["lb"]), ub: opt_from(&j["ub"]), ext: j["ext"].as_bool().unwrap(), off: u(&j["off"]), len: u(&j["len"]), pat: j["pat"].as_u64().unwrap() as u8 },
            o => machinery_error(&format!("unknown prim op {o}")),
        }
    }
}

fn content(pat: u8, n: usize) -> Vec<u8> {
    match pat {
        0 => vec![0xFF; n],
        _ => (0..n).map(|i| (i as u32).wrapping_mul(37).wrapping_add(11) as u8).collect(),
    }
}

/// What the reference says: Some((bits, expected return for length)) or None = inadmissible.
struct Expect {
    bits: Option<Vec<bool>>,
    /// for Length: the fragment size the API must return (Some(k*16K)) or None
    ret: Option<u64>,
    /// argument class used in the violation class (stable, input-derived)
    class: String,
    /// quirk model: the bits a recorded, systematic defect produces for this input (known finding);
    /// observed == quirk => KNOWN-FINDING class `<op>.quirk.<name>`, observed == neither => VIOLATION
    quirk: Option<(Vec<bool>, &'static str)>,
}

fn size_class(n: u64) -> &'static str {
    if n < 16384 {
        "lt16K"
    } else if n % 16384 == 0 && n <= 65536 {
        "eq-k16K-le64K"
    } else if n < 65536 {
        "16K-64K"
    } else if n % 16384 == 0 {
        "eq-k16K-gt64K"
    } else {
        "gt64K"
    }
}

fn constraint_class(lb: Option<u64>, ub: Option<u64>) -> &'static str {
    match (lb, ub) {
        (None, None) => "unconstrained",
        (_, Some(u)) if Some(u) == lb && u < 65536 => "fixed-lt64K",
        (_, Some(u)) if Some(u) == lb => "fixed-ge64K",
        (_, Some(u)) if u < 65536 => "ub-lt64K",
        (_, Some(_)) => "ub-ge64K",
        (Some(_), None) => "semi-constrained",
    }
}

fn expect(p: &Prim) -> Expect {
    let mut s = Sink::new();
    match p {
        Prim::Constrained { lb, ub, v } => {
            let wide = (*ub as i128 - *lb as i128) > i64::MAX as i128;
            let class = if lb > ub { "lb>ub" } else if lb == ub { "single-value" } else if wide { "range-gt-i64max" } else { "range" };
            if lb <= ub && lb <= v && v <= ub {
                refper::constrained_whole(&mut s, *lb as i128, *ub as i128, *v as i128);
                Expect { quirk: None, bits: Some(s.bits), ret: None, class: format!("{class}.in") }
            } else {
                Expect { quirk: None, bits: None, ret: None, class: format!("{class}.out") }
            }
        }
        Prim::Semi { lb, v } => {
            let wide = (*v as i128 - *lb as i128) > i64::MAX as i128;
            if v >= lb {
                refper::semi_constrained(&mut s, *lb as i128, *v as i128);
                Expect { quirk: None, bits: Some(s.bits), ret: None, class: if wide { "offset-gt-i64max".into() } else { "in".into() } }
            } else {
                Expect { quirk: None, bits: None, ret: None, class: "below-lb".into() }
            }
        }
        Prim::Unconstrained { v } => {
            refper::unconstrained(&mut s, *v as i128);
            Expect { quirk: None, bits: Some(s.bits), ret: None, class: "any".into() }
        }
        Prim::NormallySmall { n } => {
            refper::normally_small(&mut s, *n);
            Expect { quirk: None, bits: Some(s.bits), ret: None, class: if *n < 64 { "lt64".into() } else if *n > i64::MAX as u64 { "gt-i64max".into() } else { "ge64".into() } }
        }
        Prim::NormallySmallLength { n } => {
            refper::normally_small_length(&mut s, *n);
            Expect { quirk: None, bits: Some(s.bits), ret: None, class: if *n <= 64 { "le64".into() } else { "gt64".into() } }
        }
        Prim::TwosComplement { bit_len, v } => {
            let fits = *bit_len >= 1 && *bit_len <= 64 && (*bit_len == 64 || (*v >= -(1i64 << (bit_len - 1)) && *v <= (1i64 << (bit_len - 1)) - 1));
            let class = if *bit_len == 0 { "bitlen0" } else if *bit_len > 64 { "bitlen-gt64" } else if fits { "fits" } else { "does-not-fit" };
            if fits {
                s.uint((*v as i128 as u128) & if *bit_len == 64 { u64::MAX as u128 } else { (1u128 << bit_len) - 1 }, *bit_len as u32);
                Expect { quirk: None, bits: Some(s.bits), ret: None, class: class.into() }
            } else {
                Expect { quirk: None, bits: None, ret: None, class: class.into() }
            }
        }
        Prim::Length { lb, ub, n } => {
            let cc = constraint_class(*lb, *ub);
            let l = lb.unwrap_or(0);
            match ub {
                Some(ub) if *ub < 65536 => {
                    if l <= *ub && *n >= l && n <= ub {
                        refper::constrained_whole(&mut s, l as i128, *ub as i128, *n as i128);
                        Expect { quirk: None, bits: Some(s.bits), ret: None, class: format!("{cc}.in") }
                    } else {
                        Expect { quirk: None, bits: None, ret: None, class: format!("{cc}.out") }
                    }
                }
                _ => {
                    // 11.9.4.2: unconstrained form; lb plays no role in the encoding, but a length
                    // outside lb..ub is inadmissible
                    if *n < l || ub.map_or(false, |u| *n > u) || ub.map_or(false, |u| l > u) {
                        return Expect { quirk: None, bits: None, ret: None, class: format!("{cc}.out") };
                    }
                    let (take, more) = refper::general_length_step(&mut s, *n);
                    let quirk = if ub.is_some() && *lb == *ub { Some((vec![], "fixed-size-ge64K-has-no-length-determinant")) } else { None };
                    Expect { quirk, bits: Some(s.bits), ret: if more { Some(take) } else { None }, class: format!("{cc}.{}", if *n <= 127 { "le127" } else if *n < 16384 { "lt16K" } else { "ge16K" }) }
                }
            }
        }
        Prim::Index { std, ext, i, .. } => {
            if *std == 0 && !*ext {
                return Expect { quirk: None, bits: None, ret: None, class: "std0".into() };
            }
            if i < std {
                refper::index(&mut s, *std, *ext, Some(*i), None);
                Expect { quirk: None, bits: Some(s.bits), ret: None, class: "root".into() }
            } else if *ext {
                refper::index(&mut s, *std, true, None, Some(i - std));
                Expect { quirk: None, bits: Some(s.bits), ret: None, class: if i - std < 64 { "ext-lt64".into() } else { "ext-ge64".into() } }
            } else {
                Expect { quirk: None, bits: None, ret: None, class: "beyond-root-nonext".into() }
            }
        }
        Prim::Octets { lb, ub, ext, len, pat } => {
            let data = content(*pat, *len as usize);
            let size = to_size(*lb, *ub, *ext);
            let ty = vcore::schema::Ty::oct(size);
            let m = vcore::schema::Module::new("M");
            let class = format!("{}{}.{}", constraint_class(*lb, *ub), if *ext { "-ext" } else { "" }, size_class(*len));
            let quirk = fixed_ge64k_quirk(*lb, *ub, *ext, *len, &vcore::refbits::unpack(&data));
            match refper::encode(&m, &ty, &vcore::schema::Value::Bytes(data), &mut s) {
                Ok(()) => Expect { quirk, bits: Some(s.bits), ret: None, class: format!("{class}.{}", if size.contains(*len) { "in" } else { "ext-out" }) },
                Err(_) => Expect { quirk: None, bits: None, ret: None, class: format!("{class}.out") },
            }
        }
        Prim::BitStr { lb, ub, ext, off, len, pat } => {
            let data = content(*pat, ((*off + *len + 7) / 8) as usize);
            let bits: Vec<bool> = vcore::refbits::unpack(&data)[*off as usize..(*off + *len) as usize].to_vec();
            let size = to_size(*lb, *ub, *ext);
            let ty = vcore::schema::Ty::bits(size);
            let m = vcore::schema::Module::new("M");
            let class = format!("{}{}.{}", constraint_class(*lb, *ub), if *ext { "-ext" } else { "" }, size_class(*len));
            let quirk = fixed_ge64k_quirk(*lb, *ub, *ext, *len, &bits);
            match refper::encode(&m, &ty, &vcore::schema::Value::Bits(bits), &mut s) {
                Ok(()) => Expect { quirk, bits: Some(s.bits), ret: None, class: format!("{class}.{}", if size.contains(*len) { "in" } else { "ext-out" }) },
                Err(_) => Expect { quirk: None, bits: None, ret: None, class: format!("{class}.out") },
            }
        }
    }
}

/// Known finding: a fixed size >= 64K is encoded without any length determinant and unfragmented.
fn fixed_ge64k_quirk(lb: Option<u64>, ub: Option<u64>, ext: bool, len: u64, items: &[bool]) -> Option<(Vec<bool>, &'static str)> {
    match (lb, ub) {
        (Some(l), Some(u)) if l == u && u >= 65536 && len == u => {
            let mut b = vec![];
            if ext {
                b.push(false);
            }
            b.extend_from_slice(items);
            Some((b, "fixed-size-ge64K-has-no-length-determinant"))
        }
        _ => None,
    }
}

fn to_size(lb: Option<u64>, ub: Option<u64>, ext: bool) -> vcore::schema::Size {
    use vcore::schema::Size;
    match (lb, ub) {
        (None, None) => Size::Any,
        (l, Some(u)) if l == Some(u) => Size::Fix(u, ext),
        (l, u) => Size::Range(l.unwrap_or(0), u, ext),
    }
}

#[derive(Debug, PartialEq, Clone)]
enum ReadVal {
    I(i64),
    U(u64),
    Bytes(Vec<u8>),
    Bits(Vec<u8>, u64),
}

fn do_write<W: PackedWrite>(w: &mut W, p: &Prim) -> Result<Option<u64>, String> {
    match p {
        Prim::Constrained { lb, ub, v } => w.write_constrained_whole_number(*lb, *ub, *v).map(|_| None),
        Prim::Semi { lb, v } => w.write_semi_constrained_whole_number(*lb, *v).map(|_| None),
        Prim::Unconstrained { v } => w.write_unconstrained_whole_number(*v).map(|_| None),
        Prim::NormallySmall { n } => w.write_normally_small_non_negative_whole_number(*n).map(|_| None),
        Prim::NormallySmallLength { n } => w.write_normally_small_length(*n - 1).map(|_| None),
        Prim::TwosComplement { bit_len, v } => w.write_2s_compliment_binary_integer(*bit_len, *v).map(|_| None),
        Prim::Length { lb, ub, n } => w.write_length_determinant(*lb, *ub, *n),
        Prim::Index { choice: true, std, ext, i } => w.write_choice_index(*std, *ext, *i).map(|_| None),
        Prim::Index { choice: false, std, ext, i } => w.write_enumeration_index(*std, *ext, *i).map(|_| None),
        Prim::Octets { lb, ub, ext, len, pat } => w.write_octetstring(*lb, *ub, *ext, &content(*pat, *len as usize)).map(|_| None),
        Prim::BitStr { lb, ub, ext, off, len, pat } => w
            .write_bitstring(*lb, *ub, *ext, &content(*pat, ((*off + *len + 7) / 8) as usize), *off, *len)
            .map(|_| None),
    }
    .map_err(|e| per_err_kind(&e))
}

fn do_read<R: PackedRead>(r: &mut R, p: &Prim) -> Result<ReadVal, String> {
    match p {
        Prim::Constrained { lb, ub, .. } => r.read_constrained_whole_number(*lb, *ub).map(ReadVal::I),
        Prim::Semi { lb, .. } => r.read_semi_constrained_whole_number(*lb).map(ReadVal::I),
        Prim::Unconstrained { .. } => r.read_unconstrained_whole_number().map(ReadVal::I),
        Prim::NormallySmall { .. } => r.read_normally_small_non_negative_whole_number().map(ReadVal::U),
        Prim::NormallySmallLength { .. } => r.read_normally_small_length().map(|x| ReadVal::U(x + 1)),
        Prim::TwosComplement { bit_len, .. } => r.read_2s_compliment_binary_integer(*bit_len).map(ReadVal::I),
        Prim::Length { lb, ub, .. } => r.read_length_determinant(*lb, *ub).map(ReadVal::U),
        Prim::Index { choice: true, std, ext, .. } => r.read_choice_index(*std, *ext).map(ReadVal::U),
        Prim::Index { choice: false, std, ext, .. } => r.read_enumeration_index(*std, *ext).map(ReadVal::U),
        Prim::Octets { lb, ub, ext, .. } => r.read_octetstring(*lb, *ub, *ext).map(ReadVal::Bytes),
        Prim::BitStr { lb, ub, ext, .. } => r.read_bitstring(*lb, *ub, *ext).map(|(b, l)| ReadVal::Bits(b, l)),
    }
    .map_err(|e| per_err_kind(&e))
}

fn expected_read(p: &Prim, e: &Expect) -> ReadVal {
    match p {
        Prim::Constrained { v, .. } | Prim::Semi { v, .. } | Prim::Unconstrained { v } | Prim::TwosComplement { v, .. } => ReadVal::I(*v),
        Prim::NormallySmall { n } => ReadVal::U(*n),
        Prim::NormallySmallLength { n } => ReadVal::U(*n),
        // the reader of a length determinant returns the number of items that follow this header
        Prim::Length { n, .. } => ReadVal::U(e.ret.unwrap_or(*n)),
        Prim::Index { i, .. } => ReadVal::U(*i),
        Prim::Octets { len, pat, .. } => ReadVal::Bytes(content(*pat, *len as usize)),
        Prim::BitStr { off, len, pat, .. } => {
            let data = content(*pat, ((*off + *len + 7) / 8) as usize);
            let bits = &vcore::refbits::unpack(&data)[*off as usize..(*off + *len) as usize];
            ReadVal::Bits(pack(bits), *len)
        }
    }
}

fn op_name(p: &Prim) -> &'static str {
    match p {
        Prim::Constrained { .. } => "constrained",
        Prim::Semi { .. } => "semi",
        Prim::Unconstrained { .. } => "unconstrained",
        Prim::NormallySmall { .. } => "normally_small",
        Prim::NormallySmallLength { .. } => "normally_small_length",
        Prim::TwosComplement { .. } => "2s_compliment",
        Prim::Length { .. } => "length",
        Prim::Index { choice: true, .. } => "choice_index",
        Prim::Index { .. } => "enumeration_index",
        Prim::Octets { .. } => "octetstring",
        Prim::BitStr { .. } => "bitstring",
    }
}

fn show_bits(b: &[bool]) -> String {
    if b.len() > 96 {
        format!("{} bits, head {}…", b.len(), hex(&pack(&b[..96])))
    } else {
        format!("{} bits {}", b.len(), vcore::refbits::bits_to_string(b))
    }
}

fn first_diff(a: &[bool], b: &[bool]) -> usize {
    a.iter().zip(b.iter()).position(|(x, y)| x != y).unwrap_or(a.len().min(b.len()))
}

fn check_prim(p: &Prim) -> Vec<Failure> {
    let e = expect(p);
    let mut out = vec![];
    let mk = |kind: &str, expected: String, observed: String| Failure {
        class: format!("{}.{}.{}", op_name(p), e.class, kind),
        case: p.to_json(),
        expected,
        observed,
    };
    // --- write on a BitBuffer
    let mut bb = BitBuffer::default();
    let mut is_quirk = false;
    let w = catch(|| do_write(&mut bb, p));
    let written: Option<Vec<bool>> = match (&w, &e.bits) {
        (Err(pn), _) => {
            out.push(mk("write-panic", if e.bits.is_some() { "Ok".into() } else { "Err".into() }, format!("panic: {pn}")));
            None
        }
        (Ok(Err(er)), Some(b)) => {
            out.push(mk("write-err-but-admissible", show_bits(b), format!("Err({er})")));
            None
        }
        (Ok(Ok(_)), None) => {
            out.push(mk("write-ok-but-inadmissible", "Err".into(), format!("Ok, {}", show_bits(&unpack_n(bb.content(), bb.bit_len())))));
            None
        }
        (Ok(Err(_)), None) => None,
        (Ok(Ok(ret)), Some(b)) => {
            let got = unpack_n(bb.content(), bb.bit_len());
            if &got != b {
                if e.quirk.as_ref().map_or(false, |(q, _)| q == &got) {
                    is_quirk = true;
                    out.push(Failure { class: format!("{}.quirk.{}", op_name(p), e.quirk.as_ref().unwrap().1), case: p.to_json(), expected: show_bits(b), observed: show_bits(&got) });
                } else {
                    let d = first_diff(&got, b);
                    out.push(mk("write-bits", show_bits(b), format!("{} (first difference at bit {d})", show_bits(&got))));
                }
            } else if *ret != e.ret {
                out.push(mk("write-return", format!("{:?}", e.ret), format!("{ret:?}")));
            }
            if bb.content().len() != (bb.bit_len() + 7) / 8 {
                out.push(mk("buffer-len", format!("{}", (bb.bit_len() + 7) / 8), format!("{}", bb.content().len())));
            }
            Some(got)
        }
    };
    if let Some(expected_bits) = &e.bits {
        let want = if is_quirk { expected_read(p, &Expect { quirk: None, bits: None, ret: None, class: String::new() }) } else { expected_read(p, &e) };
        // --- read back what the writer produced (round trip + exact consumption)
        if let Some(got) = &written {
            if !matches!(p, Prim::Length { .. }) || true {
                let bytes = pack(got);
                let mut r = Bits::from((&bytes[..], got.len()));
                let rr = catch(|| do_read(&mut r, p));
                match rr {
                    Err(pn) => out.push(mk("read-own-panic", format!("{want:?}"), format!("panic: {pn}"))),
                    Ok(Err(er)) => out.push(mk("read-own-err", short(&want), format!("Err({er})"))),
                    Ok(Ok(v)) => {
                        let consumed_want = match p {
                            // a length determinant is a header only
                            _ => got.len(),
                        };
                        if v != want {
                            out.push(mk("read-own-value", short(&want), short(&v)));
                        } else if r.pos() != consumed_want {
                            out.push(mk("read-own-consumed", format!("{consumed_want} bits"), format!("{} bits", r.pos())));
                        }
                    }
                }
            }
        }
        // --- read the reference bits (catches errors that are symmetric in reader and writer)
        if written.as_ref() != Some(expected_bits) && !is_quirk {
            let bytes = pack(expected_bits);
            let mut r = Bits::from((&bytes[..], expected_bits.len()));
            let rr = catch(|| do_read(&mut r, p));
            match rr {
                Err(pn) => out.push(mk("read-ref-panic", short(&want), format!("panic: {pn}"))),
                Ok(Err(er)) => out.push(mk("read-ref-err", short(&want), format!("Err({er})"))),
                Ok(Ok(v)) => {
                    if v != want {
                        out.push(mk("read-ref-value", short(&want), short(&v)));
                    } else if r.pos() != expected_bits.len() {
                        out.push(mk("read-ref-consumed", format!("{} bits", expected_bits.len()), format!("{} bits", r.pos())));
                    }
                }
            }
        }
        // --- same write into a slice tuple of exactly sufficient size, and one byte too small
        if expected_bits.len() <= 4096 && !is_quirk && !matches!(p, Prim::Octets { .. } | Prim::BitStr { .. }) {
            let need = (expected_bits.len() + 7) / 8;
            let mut buf = vec![0u8; need];
            let mut pos = 0usize;
            let r = catch(|| do_write(&mut (&mut buf[..], &mut pos), p));
            match r {
                Err(pn) => out.push(mk("slice-write-panic", "Ok".into(), format!("panic: {pn}"))),
                Ok(Err(er)) => out.push(mk("slice-write-err", "Ok".into(), format!("Err({er})"))),
                Ok(Ok(_)) => {
                    if unpack_n(&buf, pos) != *expected_bits && written.as_ref() == Some(expected_bits) {
                        out.push(mk("slice-write-bits", show_bits(expected_bits), show_bits(&unpack_n(&buf, pos))));
                    }
                }
            }
            if need > 0 && expected_bits.len() > (need - 1) * 8 {
                let mut buf = vec![0u8; need - 1];
                let mut pos = 0usize;
                let r = catch(|| do_write(&mut (&mut buf[..], &mut pos), p));
                match r {
                    Err(pn) => out.push(mk("slice-short-panic", "Err".into(), format!("panic: {pn}"))),
                    Ok(Ok(_)) => out.push(mk("slice-short-ok", "Err".into(), "Ok".into())),
                    Ok(Err(_)) => {}
                }
            }
        }
    }
    out
}

fn short(v: &ReadVal) -> String {
    match v {
        ReadVal::Bytes(b) if b.len() > 24 => format!("Bytes[{}] head {}", b.len(), hex(&b[..24])),
        ReadVal::Bits(b, l) if b.len() > 24 => format!("Bits[{l}] head {}", hex(&b[..24])),
        other => format!("{other:?}"),
    }
}

// ---------------------------------------------------------------------------------------------
// the spaces
// ---------------------------------------------------------------------------------------------

fn boundary_i64() -> Vec<i64> {
    let mut v: Vec<i128> = vec![0, 1, -1, 2, -2, 100, -100];
    for k in 0..=63u32 {
        let p = 1i128 << k;
        for d in [-1i128, 0, 1] {
            v.push(p + d);
            v.push(-p + d);
        }
    }
    v.push(i64::MAX as i128);
    v.push(i64::MIN as i128);
    let mut v: Vec<i64> = v.into_iter().filter(|x| *x >= i64::MIN as i128 && *x <= i64::MAX as i128).map(|x| x as i64).collect();
    v.sort();
    v.dedup();
    v
}

fn boundary_u64() -> Vec<u64> {
    let mut v: Vec<u128> = (0..=130).collect();
    for k in 0..=64u32 {
        let p = 1u128 << k;
        for d in [-1i128, 0, 1] {
            let x = p as i128 + d;
            if x >= 0 {
                v.push(x as u128);
            }
        }
    }
    let mut v: Vec<u64> = v.into_iter().filter(|x| *x <= u64::MAX as u128).map(|x| x as u64).collect();
    v.sort();
    v.dedup();
    v
}

struct Space {
    name: &'static str,
    cases: Vec<Prim>,
}

fn spaces(tier: Tier) -> Vec<Space> {
    let t = tier.is_thorough();
    let mut out = vec![];
    // 1. constrained whole numbers, exhaustive grid
    let (lbr, rng) = if t { (40i64, 300i64) } else { (8, 64) };
    let mut c = vec![];
    for lb in -lbr..=lbr {
        for r in 0..=rng {
            let ub = lb + r;
            for v in lb - 1..=ub + 1 {
                c.push(Prim::Constrained { lb, ub, v });
            }
        }
    }
    // inverted bounds
    for lb in -3i64..=3 {
        for ub in -3i64..lb {
            for v in -4i64..=4 {
                c.push(Prim::Constrained { lb, ub, v });
            }
        }
    }
    out.push(Space { name: "constrained-grid", cases: c });
    // 2. constrained, boundary families
    let b = boundary_i64();
    let mut c = vec![];
    let bsub: Vec<i64> = if t { b.clone() } else { b.iter().copied().filter(|x| { let a = x.unsigned_abs(); a < 4 || [7, 8, 15, 16, 31, 32, 63].iter().any(|k| (a as i128 - (1i128 << k)).abs() <= 1) }).collect() };
    for &lb in &bsub {
        for &ub in &bsub {
            if lb > ub {
                continue;
            }
            let mut vs = vec![lb, ub];
            if ub > lb {
                vs.push(lb + 1);
                vs.push(ub - 1);
                vs.push(lb + (((ub as i128 - lb as i128) / 2) as i64));
            }
            if lb > i64::MIN {
                vs.push(lb - 1);
            }
            if ub < i64::MAX {
                vs.push(ub + 1);
            }
            vs.sort();
            vs.dedup();
            for v in vs {
                c.push(Prim::Constrained { lb, ub, v });
            }
        }
    }
    out.push(Space { name: "constrained-boundaries", cases: c });
    // 3. semi-constrained / unconstrained / normally small / 2s complement
    let mut c = vec![];
    for &lb in &bsub {
        for &v in &b {
            c.push(Prim::Semi { lb, v });
        }
    }
    for &v in &b {
        c.push(Prim::Unconstrained { v });
    }
    for v in -70000i64..=70000 {
        if t || v.abs() < 40000 {
            c.push(Prim::Unconstrained { v });
        }
    }
    for n in boundary_u64() {
        c.push(Prim::NormallySmall { n });
    }
    // normally small lengths: every length up to 300 and the boundaries of the length forms below 16K
    for n in (1..=300u64).chain([16382, 16383]) {
        c.push(Prim::NormallySmallLength { n });
    }
    for bit_len in 0..=66u64 {
        for &v in &b {
            c.push(Prim::TwosComplement { bit_len, v });
        }
    }
    out.push(Space { name: "whole-numbers", cases: c });
    // 4. length determinants
    let mut c = vec![];
    let lrng: u64 = if t { 300 } else { 64 };
    for lb in 0..=40u64.min(if t { 40 } else { 8 }) {
        for r in 0..=lrng {
            let ub = lb + r;
            for n in lb.saturating_sub(1)..=ub + 1 {
                c.push(Prim::Length { lb: Some(lb), ub: Some(ub), n });
                if lb == 0 {
                    c.push(Prim::Length { lb: None, ub: Some(ub), n });
                }
            }
        }
    }
    let lens: Vec<u64> = vec![0, 1, 2, 3, 126, 127, 128, 129, 255, 256, 16382, 16383, 16384, 16385, 32767, 32768, 32769, 49151, 49152, 49153, 65534, 65535, 65536, 65537, 70000, 81919, 81920, 131071, 131072, 200000,
        // where the number of 16K blocks no longer fits 8 bits (256 x 16K = 4 MiB), 16 bits, 32 bits
        4194303, 4194304, 4194305, 4210688, 4210689, 8388608, 1073741824, 4294967296, 4294967296 + 49152, 1 << 46];
    for &n in &lens {
        c.push(Prim::Length { lb: None, ub: None, n });
        for lb in [0u64, 1, 2, 65535] {
            c.push(Prim::Length { lb: Some(lb), ub: None, n });
            for ub in [65534u64, 65535, 65536, 65537, 70000, 200000] {
                c.push(Prim::Length { lb: Some(lb), ub: Some(ub), n });
            }
        }
        for ub in [65534u64, 65535, 65536, 65537, 70000] {
            c.push(Prim::Length { lb: None, ub: Some(ub), n });
            c.push(Prim::Length { lb: Some(ub), ub: Some(ub), n });
        }
    }
    for n in 0..=(if t { 70000u64 } else { 17000 }) {
        c.push(Prim::Length { lb: None, ub: None, n });
    }
    out.push(Space { name: "length-determinants", cases: c });
    // 5. enumeration / choice index
    let mut c = vec![];
    for std in 0..=(if t { 300u64 } else { 70 }) {
        for i in 0..=std + 70 {
            for ext in [false, true] {
                c.push(Prim::Index { choice: false, std, ext, i });
                c.push(Prim::Index { choice: true, std, ext, i });
            }
        }
    }
    for std in [1u64, 2, 255, 256, 257, 65535, 65536, 65537, 1 << 32, u64::MAX >> 1] {
        for i in [0, 1, std - 1, std, std + 1, std + 63, std + 64, std + 65, std + 300] {
            for ext in [false, true] {
                c.push(Prim::Index { choice: false, std, ext, i });
            }
        }
    }
    out.push(Space { name: "indices", cases: c });
    // 6. octet strings and bit strings
    let sizes: Vec<u64> = if t {
        vec![0, 1, 2, 3, 127, 128, 16383, 16384, 16385, 32767, 32768, 49152, 65535, 65536, 65537, 81919, 81920, 131071, 131072, 131073, 200000, 4194303, 4194304, 4194305 + 16384]
    } else {
        vec![0, 1, 2, 127, 128, 16383, 16384, 16385, 32768, 65535, 65536, 65537, 81920]
    };
    let mut c = vec![];
    for &len in &sizes {
        let mut cons: Vec<(Option<u64>, Option<u64>, bool)> = vec![(None, None, false), (Some(len), Some(len), false), (Some(len), Some(len), true)];
        cons.push((Some(0), Some(65535), false));
        cons.push((Some(1), Some(65535), true));
        cons.push((Some(0), Some(65536), false));
        cons.push((Some(1), Some(70000), false));
        cons.push((Some(0), Some(300000), true));
        cons.push((Some(2), None, false));
        cons.push((Some(0), Some(3), true)); // extensible, mostly outside the root
        cons.push((Some(len + 1), Some(len + 5), true)); // below an extensible root
        cons.push((Some(len + 1), Some(len + 5), false)); // below a fixed root: inadmissible
        if len > 0 {
            cons.push((Some(0), Some(len - 1), false)); // above: inadmissible
            cons.push((Some(len - 1), Some(len), false));
        }
        for (lb, ub, ext) in cons {
            for pat in [0u8, 1] {
                c.push(Prim::Octets { lb, ub, ext, len, pat });
                for off in [0u64, 3] {
                    c.push(Prim::BitStr { lb, ub, ext, off, len, pat });
                }
            }
        }
    }
    // small sizes densely (every length 0..300 under a few constraints)
    for len in 0..=(if t { 300u64 } else { 140 }) {
        for (lb, ub, ext) in [(None, None, false), (Some(0), Some(300), false), (Some(5), Some(200), true), (Some(len), Some(len), false)] {
            c.push(Prim::Octets { lb, ub, ext, len, pat: 1 });
            c.push(Prim::BitStr { lb, ub, ext, off: 1, len, pat: 1 });
        }
    }
    out.push(Space { name: "strings", cases: c });
    out
}

fn run_c10(args: &Args) -> ! {
    let sp = spaces(args.tier);
    let flat: Vec<(usize, &Prim)> = sp.iter().enumerate().flat_map(|(si, s)| s.cases.iter().map(move |c| (si, c))).collect();
    // worker process: the readers can abort the process (allocation of an absurd length), so the
    // space is swept in child processes with crash attribution (vcore::sweep)
    if let Some(ctx) = vcore::sweep::child_ctx() {
        vcore::sweep::limit_address_space(6 << 30);
        let agg: std::cell::RefCell<(BTreeMap<String, (u64, Failure)>, Vec<u64>)> = std::cell::RefCell::new((BTreeMap::new(), vec![0; sp.len()]));
        vcore::sweep::child_loop(
            &ctx,
            flat.len(),
            20000,
            |idx| {
                let (si, p) = flat[idx];
                let fs = check_prim(p);
                let nt = expect(p).bits.map_or(false, |b| !b.is_empty());
                let mut a = agg.borrow_mut();
                if nt {
                    a.1[si] += 1;
                }
                for f in fs {
                    let e = a.0.entry(f.class.clone()).or_insert((0, f));
                    e.0 += 1;
                }
            },
            || {
                let mut a = agg.borrow_mut();
                let v = json!({"failures": failures_to_json(&a.0), "nt": a.1});
                a.0.clear();
                for x in a.1.iter_mut() {
                    *x = 0;
                }
                v
            },
        );
    }
    let bad = vcore::refper_vectors::selfcheck();
    if !bad.is_empty() {
        machinery_error(&format!("refper does not reproduce the repository's externally produced vectors: {}", bad.join("; ")));
    }
    let mut report = Report::new(args, "model_checking");
    let res = vcore::sweep::sweep("c10", vcore::shard::default_shards(), std::time::Duration::from_secs(60), &[]);
    let mut agg: BTreeMap<String, (u64, Failure)> = BTreeMap::new();
    let mut nts = vec![0u64; sp.len()];
    for c in &res.chunks {
        failures_merge_json(&mut agg, &c["failures"]);
        for (i, x) in c["nt"].as_array().unwrap().iter().enumerate() {
            nts[i] += x.as_u64().unwrap();
        }
    }
    for cr in &res.crashes {
        let (_, p) = flat[cr.index];
        let e = expect(p);
        let class = format!("{}.{}.process-{}", op_name(p), e.class, cr.what.split('(').next().unwrap_or("abort"));
        let f = Failure { class: class.clone(), case: p.to_json(), expected: "Ok or Err".into(), observed: format!("worker process died: {} (allocation failure / stack overflow / hang)", cr.what) };
        let en = agg.entry(class).or_insert((0, f));
        en.0 += 1;
    }
    for (k, (n, f)) in agg {
        report.merge(k, n, f);
    }
    let total = flat.len() as u64;
    let nontrivial: u64 = nts.iter().sum();
    let mut cov_spaces = vec![];
    let mut samples = vec![];
    for (i, s) in sp.iter().enumerate() {
        cov_spaces.push(json!({"space": s.name, "cases": s.cases.len(), "admissible_with_bits": nts[i]}));
        let pick = (args.seed.unsigned_abs() as usize * 7919 + 13) % s.cases.len().max(1);
        samples.push(s.cases[pick].to_json());
    }
    let mut cov = Map::new();
    cov.insert("exhaustive".into(), json!(true));
    cov.insert("evaluations".into(), json!(total));
    cov.insert("distinct_nontrivial".into(), json!(nontrivial));
    // model_checking keys: one "state" per distinct primitive call, transitions = write + read(s) executed
    cov.insert("states".into(), json!(total));
    cov.insert("transitions".into(), json!(total * 2));
    cov.insert("traces_validated_against_impl".into(), json!(total));
    cov.insert("worker_process_crashes".into(), json!(res.crashes.len()));
    cov.insert("rule".into(), json!("each case = one primitive call (op, lb, ub, value/size) executed on a fresh BitBuffer, compared bit for bit with refper's primitive, read back from the produced bits and (if different) from the reference bits, and repeated on an exactly-sized and a one-byte-short slice tuple; spaces are complete products as listed in 'spaces'; non-trivial = admissible arguments whose encoding has >= 1 bit; every enumerated case is distinct by construction"));
    cov.insert("spaces".into(), Value::Array(cov_spaces));
    cov.insert("samples".into(), Value::Array(samples));
    report.finish(cov, vec![
        "refper primitives (vcore::refper, written from X.691 11.3-11.9, 14, 16, 17) are the trusted reference; validated by unit vectors and the repository's pinned 'playground' vectors through C02".into(),
        "a length-determinant call is one header: the writer must return Some(k*16K) when the value is fragmented and the reader returns the fragment size".into(),
    ])
}

fn main() {
    let args = parse_args();
    install_quiet_panic_hook();
    if let Some(p) = &args.replay {
        let case = load_replay(p);
        if case["kind"] == "prim" {
            let prim = Prim::from_json(&case);
            let a: Vec<String> = check_prim(&prim).iter().map(|f| format!("FAIL {} expected[{}] observed[{}]", f.class, f.expected, f.observed)).collect();
            let b: Vec<String> = check_prim(&prim).iter().map(|f| format!("FAIL {} expected[{}] observed[{}]", f.class, f.expected, f.observed)).collect();
            if a != b {
                machinery_error("replay not deterministic");
            }
            println!("{prim:?}");
            if a.is_empty() {
                println!("ok");
                std::process::exit(0);
            }
            println!("{}", a.join("\n"));
            std::process::exit(1);
        } else {
            der::replay(&case);
        }
    }
    match args.property.as_str() {
        "C10" => run_c10(&args),
        "C20" => der::run(&args),
        p => machinery_error(&format!("e_prim does not serve {p}")),
    }
}

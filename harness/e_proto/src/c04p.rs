//! C04, protobuf part: the protobuf reader is total on arbitrary input. Every short byte string and
//! every single / double fault of valid encodings, for every type of the protobuf zoo, in worker
//! processes with an allocation meter: Ok or Err, no panic, no abort, no hang, no allocation out of
//! proportion to the input.

use crate::*;
use serde_json::Map;
use std::alloc::{GlobalAlloc, Layout, System};
use std::sync::atomic::{AtomicUsize, Ordering};

pub struct Meter;
static LARGEST: AtomicUsize = AtomicUsize::new(0);
static LIVE: AtomicUsize = AtomicUsize::new(0);
static PEAK: AtomicUsize = AtomicUsize::new(0);
const REFUSE_ABOVE: usize = 1 << 30;

unsafe impl GlobalAlloc for Meter {
    unsafe fn alloc(&self, l: Layout) -> *mut u8 {
        let n = l.size();
        if n > LARGEST.load(Ordering::Relaxed) {
            LARGEST.store(n, Ordering::Relaxed);
        }
        if n > REFUSE_ABOVE {
            return std::ptr::null_mut();
        }
        let p = System.alloc(l);
        if !p.is_null() {
            let live = LIVE.fetch_add(n, Ordering::Relaxed) + n;
            if live > PEAK.load(Ordering::Relaxed) {
                PEAK.store(live, Ordering::Relaxed);
            }
        }
        p
    }
    unsafe fn dealloc(&self, p: *mut u8, l: Layout) {
        LIVE.fetch_sub(l.size(), Ordering::Relaxed);
        System.dealloc(p, l)
    }
    unsafe fn realloc(&self, p: *mut u8, l: Layout, new: usize) -> *mut u8 {
        if new > LARGEST.load(Ordering::Relaxed) {
            LARGEST.store(new, Ordering::Relaxed);
        }
        if new > REFUSE_ABOVE {
            return std::ptr::null_mut();
        }
        let q = System.realloc(p, l, new);
        if !q.is_null() {
            if new >= l.size() {
                let live = LIVE.fetch_add(new - l.size(), Ordering::Relaxed) + (new - l.size());
                if live > PEAK.load(Ordering::Relaxed) {
                    PEAK.store(live, Ordering::Relaxed);
                }
            } else {
                LIVE.fetch_sub(l.size() - new, Ordering::Relaxed);
            }
        }
        q
    }
}

/// the allowance for one read of `n` input octets: decoded values are at most a small multiple of the
/// input (one Rust value per wire element), error values carry a resolved backtrace (tens of KiB)
fn allowance(n: usize) -> usize {
    (1 << 20) + 256 * n
}

const ALPHABET: [u8; 20] = [0x00, 0x01, 0x02, 0x07, 0x08, 0x09, 0x0a, 0x0b, 0x0c, 0x0d, 0x0e, 0x0f, 0x10, 0x12, 0x1a, 0x7f, 0x80, 0x81, 0xfe, 0xff];

fn seeds(ctx: &Ctx, e: &Entry, max: usize) -> Vec<Vec<u8>> {
    let mut out: Vec<Vec<u8>> = vec![];
    for v in values_of(ctx, e) {
        if !representable(e.ops, &v) {
            continue;
        }
        if let Ok(Ok(b)) = catch(|| proto_ops(e).write_vec(&v)) {
            if !b.is_empty() && b.len() <= 24 && !out.contains(&b) {
                out.push(b);
            }
        }
    }
    // shortest, longest and the ones in between up to `max`
    out.sort_by_key(|b| b.len());
    if out.len() > max {
        let last = out.pop().unwrap();
        out.truncate(max - 1);
        out.push(last);
    }
    out
}

fn faults(seed: &[u8], double: bool) -> Vec<Vec<u8>> {
    fn single(s: &[u8]) -> Vec<Vec<u8>> {
        let mut out = vec![];
        for i in 0..s.len() * 8 {
            let mut b = s.to_vec();
            b[i / 8] ^= 0x80 >> (i % 8);
            out.push(b);
        }
        for n in 0..s.len() {
            out.push(s[..n].to_vec());
        }
        for i in 0..s.len() {
            let mut b = s.to_vec();
            b.remove(i);
            out.push(b);
        }
        for i in 0..=s.len() {
            for x in [0x00u8, 0x08, 0x0a, 0x7f, 0x80, 0xff] {
                let mut b = s.to_vec();
                b.insert(i, x);
                out.push(b);
            }
        }
        out
    }
    let mut out = single(seed);
    // every window of 1, 2, 4 and 8 octets overwritten with the boundary values of an integer of that
    // width, big and little endian (length fields, the trailing bit length of a BIT STRING, varint runs)
    for w in [1usize, 2, 4, 8] {
        if seed.len() < w {
            continue;
        }
        let max: u64 = if w == 8 { u64::MAX } else { (1u64 << (8 * w)) - 1 };
        let mut pats: Vec<u64> = vec![0, 1, max, max - 1, max - 6, max - 7, max - 8, max >> 1, (max >> 1) + 1, (max >> 1) - 6];
        pats.dedup();
        for i in 0..=seed.len() - w {
            for p in &pats {
                for le in [false, true] {
                    let mut b = seed.to_vec();
                    let bytes = p.to_be_bytes();
                    let src = &bytes[8 - w..];
                    for k in 0..w {
                        b[i + k] = if le { src[w - 1 - k] } else { src[k] };
                    }
                    out.push(b);
                }
            }
        }
    }
    // every octet replaced by, and at every position inserted, the varint of a boundary number: a length or
    // a value at the top of the 64 / 63 / 32 / 31 bit ranges (sums with an offset overflow there)
    let varint = |mut v: u64| {
        let mut o = vec![];
        loop {
            let b = (v & 0x7f) as u8;
            v >>= 7;
            if v == 0 {
                o.push(b);
                return o;
            }
            o.push(b | 0x80);
        }
    };
    let mut numbers: Vec<u64> = vec![1 << 63, (1 << 63) - 1, (1 << 63) + 1, 1 << 32, (1 << 32) - 1, 1 << 31, (1 << 31) - 1, 1 << 62, 1 << 56];
    for k in 0..=24u64 {
        numbers.push(u64::MAX - k);
    }
    for i in 0..=seed.len() {
        for n in &numbers {
            let v = varint(*n);
            let mut b = seed.to_vec();
            b.splice(i..i, v.iter().copied());
            out.push(b);
            if i < seed.len() {
                let mut b = seed.to_vec();
                b.splice(i..=i, v.iter().copied());
                out.push(b);
            }
        }
    }
    if double && seed.len() <= 8 {
        let firsts = single(seed);
        for f in firsts {
            out.extend(single(&f));
        }
    }
    out.sort();
    out.dedup();
    out
}

fn run_input(e: &Entry, kind: &str, input: &[u8], what: &str, agg: &mut Agg) {
    agg.count("evaluations", 1);
    let base = LIVE.load(Ordering::Relaxed);
    LARGEST.store(0, Ordering::Relaxed);
    PEAK.store(base, Ordering::Relaxed);
    let r = catch(|| proto_ops(e).read(input));
    let largest = LARGEST.load(Ordering::Relaxed);
    let extra = PEAK.load(Ordering::Relaxed).saturating_sub(base);
    let case = || json!({"kind": "c04p", "module": e.module_id, "def": e.def, "input": input.iter().map(|b| format!("{b:02x}")).collect::<String>(), "from": what});
    match &r {
        Err(p) => agg.fail(format!("c04.protobuf.panic.{kind}"), case(), "Ok or Err".into(), format!("panic: {}", truncate(p, 200))),
        Ok(Ok(_)) => agg.count("inputs_that_decode_ok", 1),
        Ok(Err(_)) => agg.count("inputs_refused", 1),
    }
    if largest.max(extra) > allowance(input.len()) {
        agg.fail(format!("c04.protobuf.allocation.{kind}"), case(), format!("at most {} octets for an input of {} octets", allowance(input.len()), input.len()), format!("largest single request {largest}, peak growth {extra}"));
    }
    if !input.is_empty() {
        agg.count("nontrivial", 1);
    }
}

pub fn run_entry(ctx: &Ctx, e: &Entry, agg: &mut Agg) {
    use std::io::Write;
    let m = ctx.module_of(e);
    let d = ctx.def_of(e);
    let f = forms_string(m, &d.ty, None);
    let kind = if f.is_empty() { type_kind(m, &d.ty) } else { f };
    let locate = std::env::var("VERIF_LOCATE").is_ok();
    // the first error value of a process loads the symbol tables for its backtrace (tens of MiB, once):
    // provoke one before anything is measured
    static WARM: std::sync::Once = std::sync::Once::new();
    WARM.call_once(|| {
        let _ = catch(|| proto_ops(e).read(&[0xff, 0xff, 0xff]));
        let _ = catch(|| proto_ops(e).read(&[0x0a, 0x7f]));
    });
    let mut go = |input: &[u8], what: &str, agg: &mut Agg| {
        if locate {
            println!("T {}", input.iter().map(|b| format!("{b:02x}")).collect::<String>());
            let _ = std::io::stdout().flush();
        }
        run_input(e, &kind, input, what, agg);
    };
    // every string of at most one octet, every two-octet string over the alphabet
    go(&[], "short", agg);
    for a in 0..=255u8 {
        go(&[a], "short", agg);
    }
    for a in ALPHABET {
        for b in ALPHABET {
            go(&[a, b], "short-alphabet", agg);
            if ctx.thorough {
                for c in ALPHABET {
                    go(&[a, b, c], "short-alphabet", agg);
                }
            }
        }
    }
    for s in seeds(ctx, e, if ctx.thorough { 6 } else { 2 }) {
        agg.count("seeds", 1);
        for x in faults(&s, ctx.thorough) {
            go(&x, "fault-of-valid-encoding", agg);
        }
    }
}

pub fn run(args: &Args) -> ! {
    let mut report = Report::new(args, "fault_enumeration");
    let ctx = Ctx::new(args.tier);
    let mut agg = sweep_entries(args, "C04", &ctx, |e, agg| run_entry(&ctx, e, agg));
    if agg.counters.get("evaluations").copied().unwrap_or(0) == 0 {
        machinery_error("no case was evaluated (vacuous run)");
    }
    for (k, (n, f)) in std::mem::take(&mut agg.fails) {
        report.merge(k, n, f);
    }
    let mut cov = Map::new();
    cov.insert("exhaustive".into(), json!(true));
    for (k, n) in &agg.counters {
        cov.insert(k.clone(), json!(n));
    }
    cov.insert("distinct_nontrivial".into(), json!(agg.counters.get("nontrivial").copied().unwrap_or(0)));
    cov.insert("rule".into(), json!("protobuf reader: for every type of the protobuf zoo: every byte string of <= 1 octet, every string of 2 (thorough: 3) octets over a 20-octet alphabet of tags, wire types, lengths and continuation octets, and every single (thorough: double on seeds <= 8 octets) fault - bit flip, truncation, octet deletion, insertion of 6 octet values at every position, every window of 1/2/4/8 octets overwritten with 10 integer boundary values in both byte orders, every octet replaced by and at every position inserted the varint of 34 boundary numbers (2^64-1-k for k <= 24, around 2^63, 2^62, 2^56, 2^32, 2^31) - of up to 2 (6) valid encodings: the read returns Ok or Err, does not panic, the worker process does not die or hang, and no allocation exceeds 1 MiB + 256 x input length (single request or peak growth; an Err of the subject carries a resolved backtrace)"));
    report.finish(cov, vec![])
}

pub fn replay(ctx: &Ctx, e: &Entry, case: &J) -> ! {
    let hexs = case["input"].as_str().unwrap_or("");
    let input: Vec<u8> = (0..hexs.len() / 2).filter_map(|i| u8::from_str_radix(&hexs[2 * i..2 * i + 2], 16).ok()).collect();
    let m = ctx.module_of(e);
    let d = ctx.def_of(e);
    let f = forms_string(m, &d.ty, None);
    let kind = if f.is_empty() { type_kind(m, &d.ty) } else { f };
    let mut agg = Agg::default();
    run_input(e, &kind, &input, "replay", &mut agg);
    if agg.fails.is_empty() {
        println!("ok");
        std::process::exit(0)
    }
    for (k, (_, f)) in &agg.fails {
        println!("FAIL {k} expected[{}] observed[{}]", f.expected, f.observed);
    }
    std::process::exit(1)
}

//! C17: write (growable) == write (slice), read(write(v)) protobuf-equal to v.

use crate::*;
use serde_json::Map;

/// the value a generated Rust type has under `Default::default()` for the leaf / list types
fn is_defaultish(m: &Module, ty: &Ty, v: &Value) -> bool {
    match (m.resolve(ty), v) {
        (Ty::Int { .. }, Value::Int(i)) => *i == 0,
        (Ty::Bool, Value::Bool(b)) => !*b,
        (Ty::Null, _) => true,
        (Ty::Str { .. }, Value::Str(s)) => s.is_empty(),
        (Ty::OctStr { .. }, Value::Bytes(b)) => b.is_empty(),
        (Ty::OctStr { .. }, Value::List(b)) => b.is_empty(),
        (Ty::BitStr { .. }, Value::Bits(b)) => b.is_empty(),
        (Ty::SeqOf { .. }, Value::List(l)) => l.is_empty(),
        (Ty::SeqOf { .. }, Value::Bytes(l)) => l.is_empty(),
        (Ty::Enum { .. }, Value::Enum(i)) => *i == 0,
        _ => false,
    }
}

/// protobuf equality on abstract values: identical, except that an absent optional and a present
/// default-ish value are the same
pub fn peq(m: &Module, ty: &Ty, a: &Value, b: &Value) -> bool {
    match (m.resolve(ty), a, b) {
        (Ty::Seq { comps, ext_after, .. }, Value::Seq(x), Value::Seq(y)) => {
            if x.len() != comps.len() || y.len() != comps.len() {
                return false;
            }
            comps.iter().enumerate().all(|(i, c)| {
                let optional = c.presence == Presence::Optional || ext_after.map_or(false, |k| i >= k && c.presence == Presence::Mandatory);
                match (&x[i], &y[i]) {
                    (Some(p), Some(q)) => peq(m, &c.ty, p, q),
                    (None, None) => true,
                    (Some(p), None) | (None, Some(p)) => optional && is_defaultish(m, &c.ty, p),
                }
            })
        }
        (Ty::SeqOf { inner, .. }, Value::List(x), Value::List(y)) => x.len() == y.len() && x.iter().zip(y.iter()).all(|(p, q)| peq(m, inner, p, q)),
        (Ty::Choice { alts, .. }, Value::Choice(i, p), Value::Choice(j, q)) => i == j && alts.get(*i).map_or(false, |a| peq(m, &a.ty, p, q)),
        _ => a.normalize() == b.normalize(),
    }
}

pub fn check_case(ctx: &Ctx, e: &Entry, v: &Value, agg: &mut Agg) {
    let m = ctx.module_of(e);
    let d = ctx.def_of(e);
    if !representable(e.ops, v) {
        agg.count("skipped_unrepresentable_in_generated_type", 1);
        return;
    }
    agg.count("evaluations", 1);
    let kind = type_kind(m, &d.ty);
    let forms = forms_string(m, &d.ty, Some(v));
    let sel = if forms.is_empty() { kind.clone() } else { forms.clone() };
    let case = || case_json(e, v, "c17");
    let ops = proto_ops(e);
    let bytes = match catch(|| ops.write_vec(v)) {
        Err(p) => return agg.fail(format!("c17.write-panic.{sel}"), case(), "bytes".into(), format!("panic: {p}")),
        Ok(Err(er)) => return agg.fail(format!("c17.write-err.{sel}"), case(), "bytes".into(), format!("Err({er})")),
        Ok(Ok(b)) => b,
    };
    if !bytes.is_empty() {
        agg.count("nontrivial", 1);
    }
    if agg.samples.len() < 2 && bytes.len() > 3 && bytes.len() < 40 {
        agg.samples.push(json!({"type": format!("{}::{} ::= {}", e.module_id, e.def, truncate(&d.ty.asn(), 120)), "value": v.short(), "bytes": hex(&bytes)}));
    }
    // the fixed-slice back end: exact capacity, spare capacity, one octet short
    for (name, cap) in [("exact", bytes.len()), ("spare", bytes.len() + 9)] {
        match catch(|| ops.write_slice(v, cap)) {
            Err(p) => agg.fail(format!("c17.slice-writer-panic.{name}.{kind}"), case(), hex(&bytes), format!("panic: {p}")),
            Ok(Err(er)) => agg.fail(format!("c17.slice-writer-err.{name}.{kind}"), case(), hex(&bytes), format!("Err({er}) with a buffer of {cap} octets")),
            Ok(Ok(sw)) => {
                if sw.as_bytes != bytes || sw.into_bytes_vec != bytes || sw.len_written != bytes.len() {
                    agg.fail(format!("c17.slice-writer-differs.{name}.{kind}"), case(), hex(&bytes), format!("as_bytes {} / len_written {} / into_bytes_vec {}", hex(&sw.as_bytes), sw.len_written, hex(&sw.into_bytes_vec)));
                } else if sw.buffer[..bytes.len()] != bytes[..] || sw.buffer[bytes.len()..].iter().any(|x| *x != 0xA5) {
                    agg.fail(format!("c17.slice-writer-buffer.{name}.{kind}"), case(), format!("{} then untouched 0xA5 filler", hex(&bytes)), hex(&sw.buffer));
                }
            }
        }
    }
    // every Err of the subject carries an eagerly resolved backtrace (milliseconds each): the one-octet-short
    // probe is made for the first values of every type and for every 64th after that
    let n_eval = agg.counters.get("evaluations").copied().unwrap_or(0);
    let probes = agg.counters.get("short_buffer_probes").copied().unwrap_or(0);
    if !bytes.is_empty() && (probes < 4 || n_eval % 64 == 0) {
        agg.count("short_buffer_probes", 1);
        match catch(|| ops.write_slice(v, bytes.len() - 1)) {
            Err(p) => agg.fail(format!("c17.slice-writer-panic.short.{kind}"), case(), "Err(..)".into(), format!("panic: {p}")),
            Ok(Ok(sw)) => agg.fail(format!("c17.slice-writer-silent-overflow.{kind}"), case(), format!("Err(..): {} octets do not fit into {}", bytes.len(), bytes.len() - 1), format!("Ok, len_written {}", sw.len_written)),
            Ok(Err(_)) => {}
        }
    }
    match catch(|| ops.read(&bytes)) {
        Err(p) => agg.fail(format!("c17.read-panic.{sel}"), case(), v.short(), format!("panic: {p} on {}", hex(&bytes))),
        Ok(Err(er)) => agg.fail(format!("c17.read-err.{sel}"), case(), v.short(), format!("Err({er}) on {}", hex(&bytes))),
        Ok(Ok(back)) => {
            if !peq(m, &d.ty, v, &back) {
                agg.fail(format!("c17.value-differs.{sel}"), case(), v.short(), format!("{} from {}", back.short(), hex(&bytes)));
            } else if back != v.normalize() {
                agg.count("equal_only_up_to_default_equivalence", 1);
            }
        }
    }
}

pub fn run(args: &Args) -> ! {
    let mut report = Report::new(args, "model_checking");
    let ctx = Ctx::new(args.tier);
    let mut agg = sweep_entries(args, "C17", &ctx, |e, agg| {
        for v in &values_of(&ctx, e) {
            check_case(&ctx, e, v, agg);
        }
    });
    if agg.counters.get("evaluations").copied().unwrap_or(0) == 0 {
        machinery_error("no case was evaluated (vacuous run)");
    }
    for (k, (n, f)) in std::mem::take(&mut agg.fails) {
        report.merge(k, n, f);
    }
    let mut cov = Map::new();
    cov.insert("exhaustive".into(), json!(true));
    for (k, n) in &agg.counters {
        cov.insert(k.clone(), json!(n));
    }
    cov.insert("distinct_nontrivial".into(), json!(agg.counters.get("nontrivial").copied().unwrap_or(0)));
    cov.insert("samples".into(), json!(agg.samples));
    cov.insert("rule".into(), json!("for every type of the compiled zoo (built with the subject's protobuf feature) and every value of its enumerated domain: ProtobufWriter::default() must write it; ProtobufWriter::from(&mut [u8]) with exactly enough and with spare capacity must give identical bytes through as_bytes / len_written / into_bytes_vec and leave the spare octets untouched, with one octet too few it must return an error; ProtobufReader must read the bytes back to a protobuf-equal value (identical, except absent OPTIONAL == present default-ish leaf)"));
    report.finish(cov, vec!["protobuf equality is judged on abstract values by the harness (generated types do not derive ProtobufEq); default-ish = 0, false, empty string / octets / bits / list, first enumeration item, NULL".into()])
}

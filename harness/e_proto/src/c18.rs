//! C18: the generated .proto is valid proto3 and the writer's bytes decode under it to the value.

use crate::refproto::{self, Field, PMsg, PType, PVal, Schema};
use crate::*;
use asn1rs_model::generate::Generator;
use asn1rs_model::parse::Tokenizer;
use asn1rs_model::protobuf::ToProtobufModel;
use asn1rs_model::Model;
use rayon::prelude::*;
use serde_json::Map;
use std::path::PathBuf;

pub struct ModSchema {
    pub text: String,
    pub file: PathBuf,
    pub dir: PathBuf,
    pub parsed: Result<Schema, String>,
    /// None: protoc is not installed
    pub protoc: Option<Result<(), String>>,
}

pub struct Schemas {
    pub by_module: BTreeMap<usize, Result<ModSchema, String>>,
    pub protoc: Option<PathBuf>,
}

fn target_root() -> PathBuf {
    PathBuf::from(std::env::var("CARGO_TARGET_DIR").unwrap_or_else(|_| "/verif/.target".into()))
}

fn find_protoc() -> Option<PathBuf> {
    if std::env::var("VERIF_NO_PROTOC").is_ok() {
        // exercise the path taken on a machine without protoc
        return None;
    }
    for d in std::env::var("PATH").unwrap_or_default().split(':').chain(["/usr/bin", "/usr/local/bin"]) {
        let p = PathBuf::from(d).join("protoc");
        if p.is_file() {
            return Some(p);
        }
    }
    None
}

pub fn generate_proto(text: &str) -> Result<Vec<(String, String)>, String> {
    let model = Model::try_from(Tokenizer.parse(text)).map_err(|e| format!("parse: {}", format!("{e:?}").lines().next().unwrap_or("")))?.try_resolve().map_err(|e| format!("resolve: {}", format!("{e:?}").lines().next().unwrap_or("")))?;
    let proto = model.to_rust().to_protobuf();
    let mut g = asn1rs_model::generate::protobuf::ProtobufDefGenerator::default();
    g.add_model(proto);
    g.to_string().map_err(|e| format!("generator: {e:?}"))
}

impl Schemas {
    pub fn build(ctx: &Ctx, only: Option<usize>) -> Schemas {
        Self::build_opt(ctx, only, false)
    }

    /// the schema used to decode values: the module's own .proto, or - when that file is invalid because
    /// of a list nested in a list (reported separately) - the .proto of the module without those definitions
    pub fn build_for_values(ctx: &Ctx, only: usize) -> Schemas {
        let s = Self::build_opt(ctx, Some(only), false);
        let invalid = matches!(s.by_module.get(&only), Some(Ok(ms)) if ms.parsed.is_err());
        let zm = &ctx.zoo[only];
        if invalid && zm.module.defs.iter().any(|d| has_list_in_list(&zm.module, &d.ty)) {
            return Self::build_opt(ctx, Some(only), true);
        }
        s
    }

    fn build_opt(ctx: &Ctx, only: Option<usize>, reduced: bool) -> Schemas {
        let protoc = find_protoc();
        let root = target_root().join("c18_proto").join(std::process::id().to_string());
        let mut modules: Vec<usize> = ctx.reg.iter().map(|e| e.module_index).collect();
        modules.sort();
        modules.dedup();
        if let Some(o) = only {
            modules.retain(|m| *m == o);
        }
        let built: Vec<(usize, Result<ModSchema, String>)> = modules
            .par_iter()
            .map(|mi| {
                let zm = &ctx.zoo[*mi];
                let asn = if reduced { reduced_module(&zm.module).asn() } else { zm.module.asn() };
                let r = match catch(|| generate_proto(&asn)) {
                    Err(p) => Err(format!("panic: {p}")),
                    Ok(Err(e)) => Err(e),
                    Ok(Ok(files)) if files.len() != 1 => Err(format!("{} files for one module", files.len())),
                    Ok(Ok(mut files)) => {
                        let (name, text) = files.remove(0);
                        let dir = root.join(format!("{}{}", zm.id, if reduced { "_reduced" } else { "" }));
                        let _ = std::fs::create_dir_all(&dir);
                        let file = dir.join(&name);
                        if let Err(e) = std::fs::write(&file, &text) {
                            machinery_error(&format!("cannot write {}: {e}", file.display()));
                        }
                        let parsed = refproto::parse(&text);
                        let pc = protoc.as_ref().map(|p| {
                            let out = std::process::Command::new(p).arg(format!("--proto_path={}", dir.display())).arg("--descriptor_set_out=/dev/null").arg(&name).output();
                            match out {
                                Err(e) => machinery_error(&format!("cannot run protoc: {e}")),
                                Ok(o) if o.status.success() => Ok(()),
                                Ok(o) => Err(String::from_utf8_lossy(&o.stderr).lines().next().unwrap_or("").to_string()),
                            }
                        });
                        Ok(ModSchema { text, file, dir, parsed, protoc: pc })
                    }
                };
                (*mi, r)
            })
            .collect();
        Schemas { by_module: built.into_iter().collect(), protoc }
    }
}

pub fn has_list_in_list(m: &Module, ty: &Ty) -> bool {
    let mut s = std::collections::BTreeSet::new();
    forms(m, ty, None, &mut s, false);
    // neither a list directly in a list nor a list as CHOICE alternative has a protobuf mapping (recorded):
    // the types that contain one are left out of the schema against which the other types' values are decoded
    s.contains("list-in-list") || s.contains("list-alternative")
}

fn reduced_module(m: &Module) -> Module {
    let mut r = m.clone();
    r.defs.retain(|d| !has_list_in_list(m, &d.ty));
    r
}

fn reason(msg: &str) -> &'static str {
    if msg.contains("has no field number") {
        "undeclared-field-number"
    } else if msg.contains("but the wire type is") {
        "wire-type-differs-from-declared-type"
    } else if msg.contains("oneof") {
        "oneof"
    } else if msg.contains("occurs twice") {
        "singular-field-repeated"
    } else if msg.contains("truncated") || msg.contains("announces") {
        "malformed-wire-data"
    } else if msg.contains("not declared repeated") {
        "list-not-declared-repeated"
    } else if msg.contains("no field for") {
        "component-without-field"
    } else if msg.contains("value differs") {
        "value-differs"
    } else if msg.contains("count") {
        "occurrence-count"
    } else {
        "other"
    }
}

struct Cx<'a> {
    m: &'a Module,
    s: &'a Schema,
}

fn leaf_defaultish(m: &Module, ty: &Ty, v: &Value) -> bool {
    match (m.resolve(ty), v) {
        (Ty::Int { .. }, Value::Int(i)) => *i == 0,
        (Ty::Bool, Value::Bool(b)) => !*b,
        (Ty::Null, _) => true,
        (Ty::Str { .. }, Value::Str(s)) => s.is_empty(),
        (Ty::OctStr { .. }, Value::Bytes(b)) => b.is_empty(),
        (Ty::Enum { .. }, Value::Enum(i)) => *i == 0,
        _ => false,
    }
}

fn list_items(v: &Value) -> Option<Vec<Value>> {
    match v {
        Value::List(l) => Some(l.clone()),
        Value::Bytes(b) => Some(b.iter().map(|x| Value::Int(*x as i128)).collect()),
        _ => None,
    }
}

fn walk_field(cx: &Cx, ty: &Ty, v: Option<&Value>, f: &Field, occ: &[PVal], path: &str) -> Result<(), String> {
    let Some(v) = v else {
        if occ.is_empty() {
            return Ok(());
        }
        return Err(format!("{path}: absent component, but field {} has {} occurrence(s): value differs", f.name, occ.len()));
    };
    if let Ty::SeqOf { inner, .. } = cx.m.resolve(ty) {
        if !f.repeated {
            return Err(format!("{path}: a list component, but field {} is not declared repeated", f.name));
        }
        let items = list_items(v).ok_or_else(|| format!("{path}: harness: list value expected"))?;
        if items.len() != occ.len() {
            return Err(format!("{path}: {} elements were written, field {} has {} occurrences: count differs", items.len(), f.name, occ.len()));
        }
        for (i, (it, pv)) in items.iter().zip(occ.iter()).enumerate() {
            walk_single(cx, inner, it, pv, &format!("{path}[{i}]"))?;
        }
        return Ok(());
    }
    if f.repeated {
        return Err(format!("{path}: not a list, but field {} is declared repeated", f.name));
    }
    match occ {
        [] => {
            // proto3 does not send default values of singular fields without presence
            if f.oneof.is_none() && leaf_defaultish(cx.m, ty, v) {
                Ok(())
            } else {
                Err(format!("{path}: field {} is not on the wire although the value is {}: value differs", f.name, v.short()))
            }
        }
        [pv] => walk_single(cx, ty, v, pv, path),
        _ => Err(format!("{path}: field {} occurs twice", f.name)),
    }
}

fn walk_single(cx: &Cx, ty: &Ty, v: &Value, pv: &PVal, path: &str) -> Result<(), String> {
    let rty = cx.m.resolve(ty);
    if let PVal::Msg(pm) = pv {
        let fields = cx.s.messages.get(&pm.name).ok_or_else(|| format!("{path}: message {} is not defined", pm.name))?;
        let occ = |f: &Field| pm.fields.get(&f.name).map(|v| v.as_slice()).unwrap_or(&[]);
        // the message of a definition that is not itself a SEQUENCE / SET / CHOICE (T ::= INTEGER, T ::= Other,
        // T ::= SEQUENCE OF ..) is a wrapper around one field named value
        let wrapper = cx.m.find(&pm.name).map_or(false, |d| !matches!(d.ty, Ty::Seq { .. } | Ty::Choice { .. }));
        if wrapper {
            if fields.len() != 1 || fields[0].name != "value" {
                return Err(format!("{path}: message {} of a definition that is no SEQUENCE / SET / CHOICE is not a single 'value' field", pm.name));
            }
            return walk_field(cx, ty, Some(v), &fields[0], occ(&fields[0]), &format!("{path}.value"));
        }
        return match (rty, v) {
            (Ty::Seq { comps, .. }, Value::Seq(vals)) => {
                if fields.len() != comps.len() {
                    return Err(format!("{path}: message {} declares {} fields for {} components: no field for every component", pm.name, fields.len(), comps.len()));
                }
                for (i, c) in comps.iter().enumerate() {
                    let f = fields.iter().find(|f| f.name == c.name).ok_or_else(|| format!("{path}: message {} has no field for component {}", pm.name, c.name))?;
                    walk_field(cx, &c.ty, vals.get(i).and_then(|x| x.as_ref()), f, occ(f), &format!("{path}.{}", c.name))?;
                }
                Ok(())
            }
            (Ty::Choice { alts, .. }, Value::Choice(i, x)) => {
                if fields.len() != alts.len() || fields.iter().any(|f| f.oneof.is_none()) {
                    return Err(format!("{path}: message {} is not one oneof with a member per alternative", pm.name));
                }
                let a = &alts[*i];
                let f = fields.iter().find(|f| f.name == a.name).ok_or_else(|| format!("{path}: oneof of {} has no field for alternative {}", pm.name, a.name))?;
                for g in fields {
                    if g.name != f.name && !occ(g).is_empty() {
                        return Err(format!("{path}: alternative {} was written but oneof member {} is set", a.name, g.name));
                    }
                }
                if occ(f).is_empty() {
                    return Err(format!("{path}: alternative {} was written but no member of the oneof is set", a.name));
                }
                walk_field(cx, &a.ty, Some(x), f, occ(f), &format!("{path}.{}", a.name))
            }
            _ => {
                // transparent wrapper: message { <type> value = 1; }
                if fields.len() != 1 || fields[0].name != "value" {
                    return Err(format!("{path}: message {} is neither the components / alternatives of the type nor a single 'value' field", pm.name));
                }
                walk_field(cx, ty, Some(v), &fields[0], occ(&fields[0]), &format!("{path}.value"))
            }
        };
    }
    let differs = |want: String| Err(format!("{path}: value differs: written {want}, decoded {pv:?}"));
    match (rty, v, pv) {
        (Ty::Int { .. }, Value::Int(i), PVal::U(x)) => {
            if *i == *x as i128 {
                Ok(())
            } else {
                differs(i.to_string())
            }
        }
        (Ty::Int { .. }, Value::Int(i), PVal::I(x)) => {
            if *i == *x as i128 {
                Ok(())
            } else {
                differs(i.to_string())
            }
        }
        (Ty::Bool, Value::Bool(b), PVal::Bool(x)) => {
            if b == x {
                Ok(())
            } else {
                differs(b.to_string())
            }
        }
        (Ty::Str { .. }, Value::Str(s), PVal::Str(x)) => {
            if s == x {
                Ok(())
            } else {
                differs(format!("{s:?}"))
            }
        }
        (Ty::OctStr { .. }, Value::Bytes(b), PVal::Bytes(x)) => {
            if b == x {
                Ok(())
            } else {
                differs(hex(b))
            }
        }
        (Ty::OctStr { .. }, Value::List(_), PVal::Bytes(x)) => {
            let b: Vec<u8> = list_items(v).unwrap_or_default().iter().map(|i| if let Value::Int(i) = i { *i as u8 } else { 0 }).collect();
            if &b == x {
                Ok(())
            } else {
                differs(hex(&b))
            }
        }
        (Ty::BitStr { .. }, Value::Bits(bits), PVal::Bytes(x)) => {
            // the documented representation: the octets holding the bits, then the bit length as 8 octets big endian
            let mut want = vcore::refbits::pack(bits);
            want.extend_from_slice(&(bits.len() as u64).to_be_bytes());
            if &want == x {
                Ok(())
            } else {
                differs(hex(&want))
            }
        }
        (Ty::Null, _, PVal::Bytes(x)) => {
            if x.is_empty() {
                Ok(())
            } else {
                differs("NULL (empty bytes)".into())
            }
        }
        (Ty::Enum { root, ext }, Value::Enum(i), PVal::Enum(n, name)) => {
            let items: Vec<&(String, Option<u64>)> = root.iter().chain(ext.iter().flatten()).collect();
            let item = items.get(*i).map(|x| x.0.to_uppercase().replace('-', "_")).unwrap_or_default();
            match name {
                Some(nm) if *n == *i as i64 && nm.ends_with(&format!("_{item}")) => Ok(()),
                _ => differs(format!("item #{i} ({item})")),
            }
        }
        _ => Err(format!("{path}: value differs: the abstract type {} met the decoded value {pv:?}", truncate(&rty.asn(), 60))),
    }
}

/// protoc's text format of `m` (singular default-valued scalars outside a oneof are not printed)
fn protoc_text(s: &Schema, m: &PMsg, indent: usize, out: &mut String) {
    let pad = "  ".repeat(indent);
    let Some(fields) = s.messages.get(&m.name) else { return };
    let mut sorted: Vec<&Field> = fields.iter().collect();
    sorted.sort_by_key(|f| f.number);
    for f in sorted {
        for v in m.fields.get(&f.name).map(|v| v.as_slice()).unwrap_or(&[]) {
            let implicit = !f.repeated && f.oneof.is_none();
            match v {
                PVal::U(0) | PVal::I(0) | PVal::Bool(false) | PVal::Enum(0, _) if implicit => {}
                PVal::Str(x) if implicit && x.is_empty() => {}
                PVal::Bytes(x) if implicit && x.is_empty() => {}
                PVal::U(x) => out.push_str(&format!("{pad}{}: {x}\n", f.name)),
                PVal::I(x) => out.push_str(&format!("{pad}{}: {x}\n", f.name)),
                PVal::Bool(x) => out.push_str(&format!("{pad}{}: {x}\n", f.name)),
                PVal::Str(x) => out.push_str(&format!("{pad}{}: \"{}\"\n", f.name, c_escape(x.as_bytes()))),
                PVal::Bytes(x) => out.push_str(&format!("{pad}{}: \"{}\"\n", f.name, c_escape(x))),
                PVal::Enum(n, name) => out.push_str(&format!("{pad}{}: {}\n", f.name, name.clone().unwrap_or_else(|| n.to_string()))),
                PVal::Msg(inner) => {
                    out.push_str(&format!("{pad}{} {{\n", f.name));
                    protoc_text(s, inner, indent + 1, out);
                    out.push_str(&format!("{pad}}}\n"));
                }
            }
        }
    }
}

fn c_escape(b: &[u8]) -> String {
    let mut s = String::new();
    for x in b {
        match x {
            b'\n' => s.push_str("\\n"),
            b'\r' => s.push_str("\\r"),
            b'\t' => s.push_str("\\t"),
            b'"' => s.push_str("\\\""),
            b'\'' => s.push_str("\\'"),
            b'\\' => s.push_str("\\\\"),
            0x20..=0x7e => s.push(*x as char),
            _ => s.push_str(&format!("\\{:03o}", x)),
        }
    }
    s
}

fn protoc_decode(protoc: &PathBuf, ms: &ModSchema, schema: &Schema, msg: &str, bytes: &[u8]) -> Result<String, String> {
    use std::io::Write;
    let full = if schema.package.is_empty() { msg.to_string() } else { format!("{}.{msg}", schema.package) };
    let mut child = std::process::Command::new(protoc)
        .arg(format!("--proto_path={}", ms.dir.display()))
        .arg(format!("--decode={full}"))
        .arg(ms.file.file_name().unwrap())
        .stdin(std::process::Stdio::piped())
        .stdout(std::process::Stdio::piped())
        .stderr(std::process::Stdio::piped())
        .spawn()
        .map_err(|e| format!("spawn: {e}"))?;
    child.stdin.take().unwrap().write_all(bytes).map_err(|e| format!("stdin: {e}"))?;
    let out = child.wait_with_output().map_err(|e| format!("wait: {e}"))?;
    if !out.status.success() {
        return Err(format!("protoc --decode failed: {}", String::from_utf8_lossy(&out.stderr).lines().next().unwrap_or("")));
    }
    Ok(String::from_utf8_lossy(&out.stdout).to_string())
}

pub fn check_case(ctx: &Ctx, schemas: &Schemas, e: &Entry, v: &Value, agg: &mut Agg) {
    let m = ctx.module_of(e);
    let d = ctx.def_of(e);
    let Some(Ok(ms)) = schemas.by_module.get(&e.module_index) else { return };
    let Ok(schema) = &ms.parsed else {
        agg.count("skipped_module_schema_invalid", 1);
        return;
    };
    if !schema.enums.contains_key(e.def) && !schema.messages.contains_key(e.def) {
        agg.count("skipped_type_not_in_reduced_schema", 1);
        return;
    }
    if schema.enums.contains_key(e.def) {
        agg.count("skipped_top_level_enumerated_is_no_message", 1);
        return;
    }
    if !representable(e.ops, v) {
        agg.count("skipped_unrepresentable_in_generated_type", 1);
        return;
    }
    let forms = forms_string(m, &d.ty, Some(v));
    let kind = type_kind(m, &d.ty);
    let sel = if forms.is_empty() { kind } else { forms };
    let case = || case_json(e, v, "c18");
    let bytes = match catch(|| proto_ops(e).write_vec(v)) {
        Ok(Ok(b)) => b,
        _ => {
            agg.count("skipped_writer_failed_see_c17", 1);
            return;
        }
    };
    agg.count("evaluations", 1);
    if !bytes.is_empty() {
        agg.count("nontrivial", 1);
    }
    let cx = Cx { m, s: schema };
    let verdict = refproto::decode(schema, e.def, &bytes).and_then(|pm| walk_single(&cx, &d.ty, v, &PVal::Msg(pm.clone()), e.def).map(|_| pm));
    match verdict {
        Err(msg) => agg.fail(format!("c18.{}.{sel}", reason(&msg)), case(), format!("{} decodes under message {} of the generated schema to {}", hex(&bytes), e.def, v.short()), msg),
        Ok(pm) => {
            // cross-check of the harness decoder against protoc on the first values of every type
            if let Some(pc) = &schemas.protoc {
                if agg.counters.get("decoder_cross_checked_with_protoc").copied().unwrap_or(0) < 3 && ms.protoc == Some(Ok(())) {
                    agg.count("decoder_cross_checked_with_protoc", 1);
                    let mut mine = String::new();
                    protoc_text(schema, &pm, 0, &mut mine);
                    match protoc_decode(pc, ms, schema, e.def, &bytes) {
                        Ok(theirs) if theirs == mine => {}
                        Ok(theirs) => {
                            agg.count("decoder_disagrees_with_protoc", 1);
                            if agg.samples.len() < 3 {
                                agg.samples.push(json!({"disagreement": {"type": format!("{}::{}", e.module_id, e.def), "bytes": hex(&bytes), "harness": mine, "protoc": theirs}}));
                            }
                        }
                        Err(er) => {
                            agg.count("decoder_disagrees_with_protoc", 1);
                            if agg.samples.len() < 3 {
                                agg.samples.push(json!({"disagreement": {"type": format!("{}::{}", e.module_id, e.def), "bytes": hex(&bytes), "harness": mine, "protoc": er}}));
                            }
                        }
                    }
                }
            }
        }
    }
}

fn module_failures(ctx: &Ctx, schemas: &Schemas, agg: &mut Agg) {
    for (mi, r) in &schemas.by_module {
        let zm = &ctx.zoo[*mi];
        let first = ctx.reg.iter().find(|e| e.module_index == *mi).map(|e| e.def).unwrap_or("");
        let case = json!({"kind": "c18-module", "module": zm.id, "def": first});
        let feat = {
            let mut s = std::collections::BTreeSet::new();
            for d in &zm.module.defs {
                forms(&zm.module, &d.ty, None, &mut s, false);
            }
            // only the form that makes a schema invalid by construction selects the class
            if s.contains("list-in-list") { "list-in-list" } else { "module" }
        };
        agg.count("modules", 1);
        match r {
            Err(e) => agg.fail(format!("c18.proto-generator-failed.{feat}"), case, "a .proto file".into(), truncate(e, 200)),
            Ok(ms) => {
                match (&ms.parsed, &ms.protoc) {
                    (Err(e), Some(Ok(()))) => machinery_error(&format!("the harness parser rejects a .proto that protoc accepts ({}): {e}\n{}", zm.id, ms.text)),
                    (Err(e), _) => agg.fail(format!("c18.proto-invalid.{feat}"), case, "valid proto3".into(), format!("{e}; protoc: {:?}", ms.protoc)),
                    (Ok(_), Some(Err(pe))) => agg.fail(format!("c18.proto-invalid.protoc.{feat}"), case, "valid proto3 (protoc accepts it)".into(), truncate(pe, 200)),
                    (Ok(s), _) => {
                        agg.count("modules_valid_proto3", 1);
                        // every definition has a message or enum of its name
                        for d in &zm.module.defs {
                            if !s.messages.contains_key(&d.name) && !s.enums.contains_key(&d.name) {
                                agg.fail("c18.definition-missing-in-proto".into(), case.clone(), format!("message or enum {}", d.name), "not declared".into());
                            }
                        }
                    }
                }
            }
        }
    }
}

pub fn run(args: &Args) -> ! {
    let mut report = Report::new(args, "translation_validation");
    let ctx = Ctx::new(args.tier);
    let child = vcore::sweep::child_ctx().is_some();
    if !child {
        let _ = std::fs::remove_dir_all(target_root().join("c18_proto"));
    }
    // a worker builds the schema of a module when it first meets a type of it (own directory per process)
    let cache: std::cell::RefCell<BTreeMap<usize, Schemas>> = std::cell::RefCell::new(BTreeMap::new());
    let mut agg = sweep_entries(args, "C18", &ctx, |e, agg| {
        let mut c = cache.borrow_mut();
        let schemas = c.entry(e.module_index).or_insert_with(|| Schemas::build_for_values(&ctx, e.module_index));
        let mut local = Agg::default();
        for v in &values_of(&ctx, e) {
            check_case(&ctx, schemas, e, v, &mut local);
        }
        if let Some(n) = local.counters.remove("decoder_cross_checked_with_protoc") {
            local.count("decoder_cross_checks", n);
        }
        let j = local.to_json();
        agg.merge_json(&j);
    });
    let _ = child;
    let schemas = Schemas::build(&ctx, None);
    module_failures(&ctx, &schemas, &mut agg);
    validity_space(&schemas, &mut agg);
    if agg.counters.get("decoder_disagrees_with_protoc").copied().unwrap_or(0) > 0 {
        machinery_error(&format!("the harness decoder and protoc --decode disagree: {}", serde_json::to_string(&agg.samples).unwrap_or_default()));
    }
    for (k, (n, f)) in std::mem::take(&mut agg.fails) {
        report.merge(k, n, f);
    }
    let mut cov = Map::new();
    cov.insert("exhaustive".into(), json!(true));
    for (k, n) in &agg.counters {
        cov.insert(k.clone(), json!(n));
    }
    cov.insert("programs".into(), json!(agg.counters.get("modules").copied().unwrap_or(0) + agg.counters.get("validity_modules").copied().unwrap_or(0)));
    cov.insert("disagreements_checked".into(), json!(agg.counters.get("evaluations").copied().unwrap_or(0)));
    cov.insert("distinct_nontrivial".into(), json!(agg.counters.get("nontrivial").copied().unwrap_or(0)));
    cov.insert("protoc".into(), json!(schemas.protoc.as_ref().map(|p| p.display().to_string()).unwrap_or_else(|| "not installed: validity judged by the harness parser only".into())));
    cov.insert("rule".into(), json!("for every zoo module the subject's generator chain (parse, resolve, to_rust, to_protobuf, ProtobufDefGenerator) produces the .proto; it must be valid proto3 (protoc --descriptor_set_out, and the harness parser with the proto3 rules: first enum value 0, unique numbers and names, enum value names unique per package, no repeated repeated, defined types); for every type and value the bytes of ProtobufWriter are decoded STRICTLY under that schema by the independent decoder (every field number declared, wire type equal to the declared type, singular fields once, one oneof member) and the decoded tree is walked against the abstract type and value: component <-> field by name, alternative <-> oneof member, list <-> repeated with equal count, scalar values equal (BIT STRING: octets + 8 octet length; NULL: empty bytes; ENUMERATED: number = index and value name ends in the item name). Schema validity is additionally decided on an identifier pool without values (Rust keywords, proto3 words and scalar type names, risky names in 12 positions, 71 type names, collision cases, module names, OID forms, enumeration value-name scoping, shapes): protoc must accept the file. The decoder itself is cross-checked against `protoc --decode` on the first 3 values of every type (any disagreement is a machinery error)."));
    report.finish(cov, vec!["zoo names are lower-case letters and digits, for which the generator's name mangling is the identity: fields are matched by name".into()])
}

// ---------------------------------------------------------------------------------------------
// validity of the generated .proto over the identifier pool (no values: schema text only)
// ---------------------------------------------------------------------------------------------

const PROTO_WORDS: &[&str] = &[
    "message", "oneof", "repeated", "package", "syntax", "import", "option", "returns", "rpc", "service", "stream", "map", "reserved", "to", "max", "optional", "required", "group", "extend", "extensions", "double", "float", "int32", "int64", "uint32", "uint64", "sint32", "sint64", "fixed32",
    "fixed64", "sfixed32", "sfixed64", "bool", "string", "bytes", "weak", "public", "inf", "nan",
];

pub fn validity_cases() -> Vec<pool::Case> {
    let mut out = vec![];
    pool::keyword_cases(pool::KEYWORDS, "keyword", &mut out);
    pool::keyword_cases(PROTO_WORDS, "proto-word", &mut out);
    pool::keyword_cases(pool::RISKY_LOWER, "risky-name", &mut out);
    pool::type_name_cases(&mut out);
    pool::collision_cases(&mut out);
    let mut p = |name: &str, text: String| out.push(pool::Case { label: format!("module/{name}"), text });
    for n in ["Plain", "MyModule", "My-Module", "My-Long-Module-Name", "Module", "A", "A-B", "M1", "M-1", "Package", "Syntax", "Message"] {
        p(&format!("name/{n}"), format!("{n} DEFINITIONS AUTOMATIC TAGS ::= BEGIN\nT ::= SEQUENCE {{ a INTEGER (0..7) }}\nEND\n"));
    }
    for (i, oid) in ["{ 1 }", "{ iso }", "{ iso(1) }", "{ iso member-body(2) 840 x(0) }", "{ 0 4 0 5 }", "{ itu-t(0) identified-organization(4) etsi(0) itsDomain(5) wg1(1) ts(102894) cdd(2) version(1) }", "{ joint-iso-itu-t(2) a-b(1) }"].iter().enumerate() {
        p(&format!("oid/{i}"), format!("WithOid {oid} DEFINITIONS AUTOMATIC TAGS ::= BEGIN\nT ::= SEQUENCE {{ a INTEGER (0..7) }}\nEND\n"));
    }
    // enumerations whose prefixed value names can meet
    p("enums/same-items", pool::module("A ::= ENUMERATED { x, y }\nB ::= ENUMERATED { x, y }"));
    p("enums/prefix-meets-item", pool::module("Ab ::= ENUMERATED { c-d, e }\nAbC ::= ENUMERATED { d, f }"));
    p("enums/camel-prefix", pool::module("AbC ::= ENUMERATED { d }\nAb-c ::= ENUMERATED { d }"));
    p("enums/inline-in-two-parents", pool::module("P ::= SEQUENCE { e ENUMERATED { x, y } }\nQ ::= SEQUENCE { e ENUMERATED { x, y } }"));
    p("enums/extensible", pool::module("E ::= ENUMERATED { a, b, ..., c }\nT ::= SEQUENCE { e E }"));
    p("enums/numbered", pool::module("E ::= ENUMERATED { a(5), b(2), c(9) }\nT ::= SEQUENCE { e E }"));
    p("enums/single-item", pool::module("E ::= ENUMERATED { only }"));
    // shapes
    p("shape/empty-sequence", pool::module("T ::= SEQUENCE { }"));
    p("shape/choice-in-choice", pool::module("T ::= CHOICE { a CHOICE { x NULL, y BOOLEAN }, b CHOICE { x NULL, z INTEGER } }"));
    p("shape/choice-with-list", pool::module("T ::= CHOICE { l SEQUENCE OF INTEGER (0..7), n NULL }"));
    p("shape/optional-list", pool::module("T ::= SEQUENCE { l SEQUENCE OF BOOLEAN OPTIONAL, m SET OF UTF8String }"));
    p("shape/list-of-list", pool::module("T ::= SEQUENCE { l SEQUENCE OF SEQUENCE OF BOOLEAN }"));
    p("shape/list-of-choice", pool::module("T ::= SEQUENCE OF CHOICE { a NULL, b BOOLEAN }"));
    p("shape/many-fields", pool::module(&format!("T ::= SEQUENCE {{ {} }}", (0..40).map(|i| format!("f{i} INTEGER (0..7) OPTIONAL")).collect::<Vec<_>>().join(", "))));
    out
}

/// the cause of an invalid file as a class: the harness parser's cause code where it rejects the file (stable, does
/// not depend on the installed protoc), else protoc's message without position, names and numbers
fn validity_family(msg: &str) -> String {
    if let Some(p) = msg.find('[') {
        if let Some(q) = msg[p..].find(']') {
            let code = &msg[p + 1..p + q];
            if !code.is_empty() && code.chars().all(|c| c.is_ascii_lowercase() || c == '-') {
                return code.to_string();
            }
        }
    }
    let m = msg.strip_prefix("protoc: ").unwrap_or(msg);
    // file.proto:line:col: message
    let m = match m.find(".proto:") {
        Some(p) => m[p + 7..].splitn(3, ':').nth(2).unwrap_or(m).trim(),
        None => m,
    };
    let mut out = String::new();
    let mut in_quote = false;
    for ch in m.chars() {
        if ch == '"' {
            in_quote = !in_quote;
            if in_quote {
                out.push('N');
            }
            continue;
        }
        if in_quote {
            continue;
        }
        if ch.is_ascii_alphabetic() {
            out.push(ch.to_ascii_lowercase());
        } else if ch.is_ascii_digit() {
            if !out.ends_with('n') || out.ends_with("n") && !out.ends_with("-n") {
                out.push('n');
            }
        } else if !out.ends_with('-') {
            out.push('-');
        }
    }
    out.trim_matches('-').chars().take(70).collect()
}

pub fn validity_space(schemas: &Schemas, agg: &mut Agg) {
    let cases = validity_cases();
    let root = target_root().join("c18_proto").join(std::process::id().to_string()).join("validity");
    let res: Vec<(usize, Option<(String, String)>)> = cases
        .par_iter()
        .enumerate()
        .map(|(i, c)| {
            let r = match catch(|| generate_proto(&c.text)) {
                Err(p) => Some(("proto-generator-panics".to_string(), truncate(&p, 200))),
                Ok(Err(e)) if e.starts_with("parse:") || e.starts_with("resolve:") => None,
                Ok(Err(e)) => Some(("proto-generator-failed".to_string(), truncate(&e, 200))),
                Ok(Ok(files)) => {
                    let mut verdict = None;
                    for (name, text) in files {
                        let dir = root.join(i.to_string());
                        let _ = std::fs::create_dir_all(&dir);
                        let _ = std::fs::write(dir.join(&name), &text);
                        let mine = refproto::parse(&text);
                        let theirs = schemas.protoc.as_ref().map(|p| {
                            let out = std::process::Command::new(p).arg(format!("--proto_path={}", dir.display())).arg("--descriptor_set_out=/dev/null").arg(&name).output();
                            match out {
                                Err(e) => machinery_error(&format!("cannot run protoc: {e}")),
                                Ok(o) if o.status.success() => Ok(()),
                                Ok(o) => Err(String::from_utf8_lossy(&o.stderr).lines().next().unwrap_or("").to_string()),
                            }
                        });
                        match (mine, theirs) {
                            (Err(e), Some(Ok(()))) => machinery_error(&format!("the harness parser rejects a .proto that protoc accepts ({}): {e}\n{text}", c.label)),
                            (Err(e), None) => verdict = Some(("proto-invalid".to_string(), e)),
                            (Err(e), Some(Err(pe))) => verdict = Some(("proto-invalid".to_string(), format!("{e}; protoc: {}", truncate(&pe, 160)))),
                            (Ok(_), Some(Err(pe))) => verdict = Some(("proto-invalid".to_string(), format!("protoc: {}", truncate(&pe, 200)))),
                            (Ok(_), _) => {}
                        }
                    }
                    verdict
                }
            };
            (i, r)
        })
        .collect();
    for (i, r) in res {
        agg.count("validity_modules", 1);
        match r {
            None => agg.count("validity_modules_valid_or_rejected_by_front_end", 1),
            Some((kind, msg)) => agg.fail(format!("c18.{kind}.{}.{}", cases[i].label.split('/').take(if cases[i].label.starts_with("module/") { 2 } else { 1 }).collect::<Vec<_>>().join("."), validity_family(&msg)), json!({"kind": "c18-validity", "label": cases[i].label, "asn": cases[i].text}), "a valid proto3 file (or a front-end error)".into(), msg),
        }
    }
}

pub fn replay_validity(case: &J) -> ! {
    let text = case["asn"].as_str().unwrap_or("");
    let protoc = find_protoc();
    match catch(|| generate_proto(text)) {
        Err(p) => {
            println!("FAIL c18.proto-generator-panics {p}");
            std::process::exit(1)
        }
        Ok(Err(e)) => {
            println!("ok ({e})");
            std::process::exit(0)
        }
        Ok(Ok(files)) => {
            let dir = target_root().join("c18_proto").join(format!("replay{}", std::process::id()));
            let _ = std::fs::create_dir_all(&dir);
            for (name, text) in files {
                let _ = std::fs::write(dir.join(&name), &text);
                let mine = refproto::parse(&text);
                let theirs = protoc.as_ref().map(|p| std::process::Command::new(p).arg(format!("--proto_path={}", dir.display())).arg("--descriptor_set_out=/dev/null").arg(&name).output().map(|o| (o.status.success(), String::from_utf8_lossy(&o.stderr).to_string())).unwrap_or((false, "cannot run protoc".into())));
                if mine.is_err() || matches!(&theirs, Some((false, _))) {
                    println!("FAIL c18.proto-invalid harness parser: {mine:?}; protoc: {theirs:?}\n{text}");
                    let _ = std::fs::remove_dir_all(&dir);
                    std::process::exit(1)
                }
            }
            let _ = std::fs::remove_dir_all(&dir);
            println!("ok");
            std::process::exit(0)
        }
    }
}

pub fn replay_module(ctx: &Ctx, e: &Entry) -> ! {
    let schemas = Schemas::build(ctx, Some(e.module_index));
    let mut agg = Agg::default();
    module_failures(ctx, &schemas, &mut agg);
    if agg.fails.is_empty() {
        println!("ok");
        std::process::exit(0)
    }
    for (k, (_, f)) in &agg.fails {
        println!("FAIL {k} expected[{}] observed[{}]", f.expected, f.observed);
    }
    std::process::exit(1)
}

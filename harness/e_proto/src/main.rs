//! C17 — protobuf round trip of every zoo type and value through the subject's two writer back ends
//!       and its reader, up to proto3 default equivalence.
//! C18 — the bytes of the subject's protobuf writer decoded with an independent decoder under the
//!       subject's generated .proto schema give the value back; the .proto is valid proto3.

use serde_json::{json, Value as J};
use std::collections::BTreeMap;
use vcore::report::*;
use vcore::schema::*;
use vcore::values::{self, Budget};
use vcore::zoo_def::{self, ZooModule};
use zoo::proto::ProtoOps;
use zoo::{Entry, TypeOps};

mod c04p;
mod c17;
mod c18;
#[path = "../../e_codegen/src/pool.rs"]
mod pool;
mod refproto;

#[global_allocator]
static GLOBAL: c04p::Meter = c04p::Meter;

pub struct Ctx {
    pub zoo: Vec<ZooModule>,
    pub reg: Vec<Entry>,
    pub thorough: bool,
}

impl Ctx {
    pub fn new(tier: Tier) -> Self {
        Ctx { zoo: zoo_def::zoo(), reg: zoo::registry(), thorough: tier.is_thorough() }
    }
    pub fn module_of(&self, e: &Entry) -> &Module {
        &self.zoo[e.module_index].module
    }
    pub fn def_of(&self, e: &Entry) -> &Def {
        self.module_of(e).find(e.def).expect("def")
    }
    pub fn find(&self, module_id: &str, def: &str) -> Option<&Entry> {
        self.reg.iter().find(|e| e.module_id == module_id && e.def == def)
    }
}

pub fn budget(thorough: bool) -> Budget {
    // sizes matter only through the length varint (1 octet up to 127, 2 octets up to 16383)
    if thorough {
        Budget { max_size: 70000, nested_leaf: 5, product_cap: 8192, ext_out: true, large_sizes: &[] }
    } else {
        Budget { max_size: 300, nested_leaf: 3, product_cap: 512, ext_out: true, large_sizes: &[] }
    }
}

pub fn values_of(ctx: &Ctx, e: &Entry) -> Vec<Value> {
    values::values(ctx.module_of(e), &ctx.def_of(e).ty, &budget(ctx.thorough))
}

pub fn representable(ops: &dyn TypeOps, v: &Value) -> bool {
    matches!(catch(|| ops.reflect(v)), Ok(r) if r == v.normalize())
}

pub fn type_kind(m: &Module, ty: &Ty) -> String {
    match m.resolve(ty) {
        Ty::Bool => "boolean".into(),
        Ty::Null => "null".into(),
        Ty::Int { .. } => "integer".into(),
        Ty::Enum { .. } => "enumerated".into(),
        Ty::BitStr { .. } => "bitstring".into(),
        Ty::OctStr { .. } => "octetstring".into(),
        Ty::Str { .. } => "string".into(),
        Ty::Seq { set: false, .. } => "sequence".into(),
        Ty::Seq { set: true, .. } => "set".into(),
        Ty::SeqOf { set: false, .. } => "sequenceof".into(),
        Ty::SeqOf { set: true, .. } => "setof".into(),
        Ty::Choice { .. } => "choice".into(),
        Ty::Ref(_) => unreachable!(),
    }
}

pub fn case_json(e: &Entry, v: &Value, what: &str) -> J {
    let vj = if v.render().len() > 4000 { json!({"too_large_to_embed": v.short()}) } else { v.to_json() };
    json!({"kind": what, "module": e.module_id, "def": e.def, "value": vj})
}

pub fn hex(b: &[u8]) -> String {
    let s: String = b.iter().take(48).map(|x| format!("{x:02x}")).collect::<Vec<_>>().join(" ");
    if b.len() > 48 {
        format!("{} octets [{s} …]", b.len())
    } else {
        format!("{} octets [{s}]", b.len())
    }
}

#[derive(Default)]
pub struct Agg {
    pub fails: BTreeMap<String, (u64, Failure)>,
    pub counters: BTreeMap<String, u64>,
    pub samples: Vec<J>,
}

impl Agg {
    pub fn fail(&mut self, class: String, case: J, expected: String, observed: String) {
        let e = self.fails.entry(class.clone()).or_insert((0, Failure { class, case, expected, observed }));
        e.0 += 1;
    }
    pub fn count(&mut self, k: &str, n: u64) {
        *self.counters.entry(k.to_string()).or_insert(0) += n;
    }
    pub fn to_json(&self) -> J {
        json!({"failures": failures_to_json(&self.fails), "counters": self.counters, "samples": self.samples})
    }
    pub fn merge_json(&mut self, v: &J) {
        failures_merge_json(&mut self.fails, &v["failures"]);
        if let Some(c) = v["counters"].as_object() {
            for (k, n) in c {
                self.count(k, n.as_u64().unwrap_or(0));
            }
        }
        if let Some(s) = v["samples"].as_array() {
            for x in s {
                if self.samples.len() < 6 {
                    self.samples.push(x.clone());
                }
            }
        }
    }
    pub fn clear(&mut self) {
        self.fails.clear();
        self.counters.clear();
        self.samples.clear();
    }
}

/// Runs `per_entry` for every registry entry in worker processes (a reader that allocates without
/// bound or recurses without end kills a worker, not the check) and returns the merged result.
pub fn sweep_entries(args: &Args, prop: &'static str, ctx: &Ctx, mut per_entry: impl FnMut(&Entry, &mut Agg)) -> Agg {
    if let Some(cctx) = vcore::sweep::child_ctx() {
        vcore::sweep::limit_address_space(4 << 30);
        let agg = std::cell::RefCell::new(Agg::default());
        vcore::sweep::child_loop(
            &cctx,
            ctx.reg.len(),
            4,
            |idx| {
                let e = &ctx.reg[idx];
                let mut a = agg.borrow_mut();
                a.count("types", 1);
                per_entry(e, &mut a);
            },
            || {
                let mut a = agg.borrow_mut();
                let v = a.to_json();
                a.clear();
                v
            },
        );
    }
    let _ = args;
    let res = vcore::sweep::sweep(prop, vcore::shard::default_shards(), std::time::Duration::from_secs(180), &[]);
    let mut agg = Agg::default();
    for c in &res.chunks {
        agg.merge_json(c);
    }
    for cr in &res.crashes {
        let e = &ctx.reg[cr.index];
        let m = ctx.module_of(e);
        let d = ctx.def_of(e);
        let f = forms_string(m, &d.ty, None);
        agg.fail(
            format!("{}.process-{}.{}", prop.to_lowercase(), cr.what.split('(').next().unwrap_or("abort"), if f.is_empty() { type_kind(m, &d.ty) } else { f }),
            json!({"kind": "type-sweep", "property": prop, "module": e.module_id, "def": e.def}),
            "every case returns".into(),
            format!("worker process died while exploring this type: {}", cr.what),
        );
    }
    agg.count("worker_process_crashes", res.crashes.len() as u64);
    agg
}

/// The forms of the abstract type that the protobuf mapping handles specially; they select classes.
pub fn forms(m: &Module, ty: &Ty, v: Option<&Value>, out: &mut std::collections::BTreeSet<&'static str>, in_list: bool) {
    match m.resolve(ty) {
        Ty::Null => {
            out.insert(if in_list { "null-in-list" } else { "null" });
        }
        Ty::SeqOf { inner, .. } => {
            if in_list {
                out.insert("list-in-list");
            }
            match v {
                Some(Value::List(l)) => {
                    for x in l {
                        forms(m, inner, Some(x), out, true);
                    }
                }
                Some(Value::Bytes(_)) => {}
                _ => forms(m, inner, None, out, true),
            }
        }
        Ty::Seq { comps, .. } => {
            for (i, c) in comps.iter().enumerate() {
                match v {
                    Some(Value::Seq(s)) => {
                        if let Some(Some(x)) = s.get(i) {
                            forms(m, &c.ty, Some(x), out, false);
                        }
                    }
                    _ => forms(m, &c.ty, None, out, false),
                }
            }
        }
        Ty::Choice { alts, .. } => match v {
            Some(Value::Choice(i, x)) => {
                if let Some(a) = alts.get(*i) {
                    if matches!(m.resolve(&a.ty), Ty::Null) {
                        out.insert("null-alternative-selected");
                    } else if matches!(m.resolve(&a.ty), Ty::SeqOf { .. }) {
                        out.insert("list-alternative-selected");
                    } else {
                        forms(m, &a.ty, Some(x), out, false);
                    }
                }
            }
            _ => {
                for a in alts {
                    if matches!(m.resolve(&a.ty), Ty::SeqOf { .. }) {
                        out.insert("list-alternative");
                    }
                    forms(m, &a.ty, None, out, false);
                }
            }
        },
        _ => {}
    }
}

pub fn forms_string(m: &Module, ty: &Ty, v: Option<&Value>) -> String {
    let mut s = std::collections::BTreeSet::new();
    forms(m, ty, v, &mut s, false);
    s.into_iter().collect::<Vec<_>>().join("+")
}

fn main() {
    let args = parse_args();
    install_quiet_panic_hook();
    if let Some(p) = &args.replay {
        let c = load_replay(p);
        if c["kind"] == "c18-validity" {
            c18::replay_validity(&c)
        }
        let ctx = Ctx::new(Tier::Thorough);
        let e = match ctx.find(c["module"].as_str().unwrap_or(""), c["def"].as_str().unwrap_or("")) {
            Some(e) => e,
            None => machinery_error("replay: the type is not part of the compiled zoo (build with --features thorough)"),
        };
        if c["kind"] == "type-sweep" {
            // a worker died on this type: walk its values again, announcing each one first
            use std::io::Write;
            vcore::sweep::limit_address_space(4 << 30);
            let prop = c["property"].as_str().unwrap_or("C17").to_string();
            let schemas = c18::Schemas::build_for_values(&ctx, e.module_index);
            let mut agg = Agg::default();
            for (i, v) in values_of(&ctx, e).iter().enumerate() {
                println!("T {i} {}", v.short());
                let _ = std::io::stdout().flush();
                if prop == "C04" {
                    std::env::set_var("VERIF_LOCATE", "1");
                    c04p::run_entry(&ctx, e, &mut agg);
                    break;
                } else if prop == "C17" {
                    c17::check_case(&ctx, e, v, &mut agg);
                } else {
                    c18::check_case(&ctx, &schemas, e, v, &mut agg);
                }
            }
            println!("ok (every value returned)");
            std::process::exit(0)
        }
        if c["kind"] == "c18-module" {
            c18::replay_module(&ctx, e)
        }
        if c["value"].get("too_large_to_embed").is_some() {
            machinery_error("replay: the value was too large to embed; rerun the tier instead");
        }
        let v = Value::from_json(&c["value"]);
        if c["kind"] == "c04p" {
            c04p::replay(&ctx, e, &c)
        }
        let mut agg = Agg::default();
        match c["kind"].as_str().unwrap_or("") {
            "c17" => c17::check_case(&ctx, e, &v, &mut agg),
            "c18" => {
                let schemas = c18::Schemas::build_for_values(&ctx, e.module_index);
                c18::check_case(&ctx, &schemas, e, &v, &mut agg)
            }
            k => machinery_error(&format!("unknown replay kind {k}")),
        }
        if agg.fails.is_empty() {
            println!("ok");
            std::process::exit(0)
        }
        for (k, (_, f)) in &agg.fails {
            println!("FAIL {k} expected[{}] observed[{}]", f.expected, f.observed);
        }
        std::process::exit(1)
    }
    match args.property.as_str() {
        "C04" => c04p::run(&args),
        "C17" => c17::run(&args),
        "C18" => c18::run(&args),
        p => machinery_error(&format!("e_proto does not serve {p}")),
    }
}

pub fn proto_ops<'a>(e: &'a Entry) -> &'a dyn ProtoOps {
    e.ops.proto()
}

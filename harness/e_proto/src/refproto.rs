//! Independent protobuf reference: a parser for the proto3 subset the subject's generator emits and a
//! strict, schema-directed wire decoder (written from the protobuf encoding specification, shares
//! nothing with src/protocol/protobuf).

use std::collections::BTreeMap;

#[derive(Clone, Debug, PartialEq)]
pub enum PType {
    Bool,
    UInt32,
    UInt64,
    SInt32,
    SInt64,
    Int32,
    Int64,
    Fixed32,
    Fixed64,
    SFixed32,
    SFixed64,
    String,
    Bytes,
    Named(String),
}

#[derive(Clone, Debug)]
pub struct Field {
    pub name: String,
    pub number: u32,
    pub ty: PType,
    pub repeated: bool,
    pub oneof: Option<String>,
}

#[derive(Clone, Debug, Default)]
pub struct Schema {
    pub package: String,
    pub imports: Vec<String>,
    pub messages: BTreeMap<String, Vec<Field>>,
    pub enums: BTreeMap<String, Vec<(String, i64)>>,
    /// declaration order of messages and enums
    pub order: Vec<String>,
}

#[derive(Debug, Clone, PartialEq)]
enum Tok {
    Ident(String),
    Num(i64),
    Str(String),
    Sym(char),
}

fn lex(text: &str) -> Result<Vec<Tok>, String> {
    let cs: Vec<char> = text.chars().collect();
    let mut i = 0;
    let mut out = vec![];
    while i < cs.len() {
        let c = cs[i];
        if c.is_whitespace() {
            i += 1;
        } else if c == '/' && i + 1 < cs.len() && cs[i + 1] == '/' {
            while i < cs.len() && cs[i] != '\n' {
                i += 1;
            }
        } else if c == '/' && i + 1 < cs.len() && cs[i + 1] == '*' {
            i += 2;
            while i + 1 < cs.len() && !(cs[i] == '*' && cs[i + 1] == '/') {
                i += 1;
            }
            i += 2;
        } else if c.is_ascii_alphabetic() || c == '_' {
            let s = i;
            while i < cs.len() && (cs[i].is_ascii_alphanumeric() || cs[i] == '_' || cs[i] == '.') {
                i += 1;
            }
            out.push(Tok::Ident(cs[s..i].iter().collect()));
        } else if c.is_ascii_digit() || (c == '-' && i + 1 < cs.len() && cs[i + 1].is_ascii_digit()) {
            let s = i;
            i += 1;
            while i < cs.len() && cs[i].is_ascii_digit() {
                i += 1;
            }
            let t: String = cs[s..i].iter().collect();
            out.push(Tok::Num(t.parse().map_err(|_| format!("bad number {t}"))?));
        } else if c == '\'' || c == '"' {
            let s = i + 1;
            i += 1;
            while i < cs.len() && cs[i] != c {
                if cs[i] == '\n' {
                    return Err("newline in string literal".into());
                }
                i += 1;
            }
            if i >= cs.len() {
                return Err("unterminated string literal".into());
            }
            out.push(Tok::Str(cs[s..i].iter().collect()));
            i += 1;
        } else if "=;{}[],<>()".contains(c) {
            out.push(Tok::Sym(c));
            i += 1;
        } else {
            return Err(format!("unexpected character {c:?}"));
        }
    }
    Ok(out)
}

fn ptype(name: &str) -> PType {
    match name {
        "bool" => PType::Bool,
        "uint32" => PType::UInt32,
        "uint64" => PType::UInt64,
        "sint32" => PType::SInt32,
        "sint64" => PType::SInt64,
        "int32" => PType::Int32,
        "int64" => PType::Int64,
        "fixed32" => PType::Fixed32,
        "fixed64" => PType::Fixed64,
        "sfixed32" => PType::SFixed32,
        "sfixed64" => PType::SFixed64,
        "string" => PType::String,
        "bytes" => PType::Bytes,
        other => PType::Named(other.to_string()),
    }
}

const RESERVED_WORDS: &[&str] = &["syntax", "import", "package", "option", "message", "enum", "oneof", "repeated", "optional", "required", "map", "reserved", "service", "rpc", "returns", "stream", "extend", "extensions", "group", "to", "max", "weak", "public"];

struct P {
    t: Vec<Tok>,
    i: usize,
}

impl P {
    fn peek(&self) -> Option<&Tok> {
        self.t.get(self.i)
    }
    fn next(&mut self) -> Result<Tok, String> {
        let t = self.t.get(self.i).cloned().ok_or("unexpected end of file")?;
        self.i += 1;
        Ok(t)
    }
    fn sym(&mut self, c: char) -> Result<(), String> {
        match self.next()? {
            Tok::Sym(x) if x == c => Ok(()),
            other => Err(format!("expected '{c}', found {other:?}")),
        }
    }
    fn ident(&mut self) -> Result<String, String> {
        match self.next()? {
            Tok::Ident(s) => Ok(s),
            other => Err(format!("expected identifier, found {other:?}")),
        }
    }
    fn num(&mut self) -> Result<i64, String> {
        match self.next()? {
            Tok::Num(n) => Ok(n),
            other => Err(format!("expected number, found {other:?}")),
        }
    }
    fn field(&mut self, oneof: Option<String>, allow_repeated: bool) -> Result<Field, String> {
        let mut ty = self.ident()?;
        let mut repeated = false;
        if ty == "repeated" {
            if !allow_repeated {
                return Err("[repeated-in-oneof] repeated is not allowed inside oneof".into());
            }
            repeated = true;
            ty = self.ident()?;
            if ty == "repeated" {
                return Err("[repeated-repeated] 'repeated repeated': a repeated field of a repeated type is not valid proto3".into());
            }
        }
        if ty == "optional" {
            ty = self.ident()?;
        }
        let name = self.ident()?;
        self.sym('=')?;
        let number = self.num()?;
        self.sym(';')?;
        if number <= 0 || number > 536_870_911 || (19000..=19999).contains(&number) {
            return Err(format!("[bad-field-number] field number {number} of {name} is not allowed"));
        }
        Ok(Field { name, number: number as u32, ty: ptype(&ty), repeated, oneof })
    }
}

/// Parses and validates (names, numbers, references; imported names are not checked).
pub fn parse(text: &str) -> Result<Schema, String> {
    let mut p = P { t: lex(text)?, i: 0 };
    let mut s = Schema::default();
    let mut saw_syntax = false;
    while p.peek().is_some() {
        if let Some(Tok::Sym(';')) = p.peek() {
            p.i += 1;
            continue;
        }
        let kw = p.ident()?;
        match kw.as_str() {
            "syntax" => {
                p.sym('=')?;
                match p.next()? {
                    Tok::Str(v) if v == "proto3" => {}
                    other => return Err(format!("syntax must be proto3, found {other:?}")),
                }
                p.sym(';')?;
                saw_syntax = true;
            }
            "package" => {
                s.package = p.ident().map_err(|e| format!("[bad-package-name] {e}"))?;
                p.sym(';')?;
                for part in s.package.split('.') {
                    if part.is_empty() || part.chars().next().map_or(true, |c| c.is_ascii_digit()) {
                        return Err(format!("[bad-package-name] package name {} is not a valid identifier path", s.package));
                    }
                }
            }
            "import" => {
                match p.next()? {
                    Tok::Str(v) => s.imports.push(v),
                    other => return Err(format!("import needs a string, found {other:?}")),
                }
                p.sym(';')?;
            }
            "enum" => {
                let name = p.ident()?;
                p.sym('{')?;
                let mut vals: Vec<(String, i64)> = vec![];
                loop {
                    if let Some(Tok::Sym('}')) = p.peek() {
                        p.i += 1;
                        break;
                    }
                    let vn = p.ident()?;
                    p.sym('=')?;
                    let n = p.num()?;
                    p.sym(';')?;
                    if vals.iter().any(|(x, _)| *x == vn) {
                        return Err(format!("[name-defined-twice] enum {name}: value name {vn} twice"));
                    }
                    if vals.iter().any(|(_, x)| *x == n) {
                        return Err(format!("[enum-number-twice] enum {name}: number {n} twice (needs allow_alias)"));
                    }
                    vals.push((vn, n));
                }
                if vals.is_empty() {
                    return Err(format!("[enum-empty] enum {name} has no values"));
                }
                if vals[0].1 != 0 {
                    return Err(format!("[enum-first-not-zero] enum {name}: the first value must be 0 in proto3"));
                }
                if s.enums.contains_key(&name) || s.messages.contains_key(&name) {
                    return Err(format!("[name-defined-twice] {name} is defined twice"));
                }
                s.order.push(name.clone());
                s.enums.insert(name, vals);
            }
            "message" => {
                let name = p.ident()?;
                p.sym('{')?;
                let mut fields: Vec<Field> = vec![];
                loop {
                    match p.peek() {
                        Some(Tok::Sym('}')) => {
                            p.i += 1;
                            break;
                        }
                        // emptyStatement
                        Some(Tok::Sym(';')) => p.i += 1,
                        Some(Tok::Ident(k)) if k == "oneof" => {
                            p.i += 1;
                            let on = p.ident()?;
                            p.sym('{')?;
                            let mut n = 0;
                            loop {
                                if let Some(Tok::Sym('}')) = p.peek() {
                                    p.i += 1;
                                    break;
                                }
                                fields.push(p.field(Some(on.clone()), false)?);
                                n += 1;
                            }
                            if n == 0 {
                                return Err(format!("[empty-oneof] message {name}: oneof {on} has no fields"));
                            }
                        }
                        Some(_) => fields.push(p.field(None, true)?),
                        None => return Err("unexpected end of file in message".into()),
                    }
                }
                for (i, f) in fields.iter().enumerate() {
                    if fields[..i].iter().any(|g| g.number == f.number) {
                        return Err(format!("[field-number-twice] message {name}: field number {} twice", f.number));
                    }
                    if fields[..i].iter().any(|g| g.name == f.name) || fields.iter().any(|g| g.oneof.as_deref() == Some(f.name.as_str())) {
                        return Err(format!("[name-defined-twice] message {name}: field name {} twice", f.name));
                    }
                    if RESERVED_WORDS.contains(&f.name.as_str()) && false {
                        // keywords are legal field names in proto3
                    }
                }
                if s.enums.contains_key(&name) || s.messages.contains_key(&name) {
                    return Err(format!("[name-defined-twice] {name} is defined twice"));
                }
                s.order.push(name.clone());
                s.messages.insert(name, fields);
            }
            other => return Err(format!("unsupported top-level construct '{other}'")),
        }
    }
    if !saw_syntax {
        return Err("no syntax statement".into());
    }
    // enum value names are scoped to the enclosing package in proto3 (C++ scoping rules)
    let mut seen: BTreeMap<&str, &str> = BTreeMap::new();
    for (en, vals) in &s.enums {
        for (vn, _) in vals {
            if let Some(other) = seen.insert(vn.as_str(), en.as_str()) {
                return Err(format!("[name-defined-twice] enum value name {vn} is used by {other} and {en} (enum values are siblings of their type)"));
            }
        }
    }
    // references (names with a package prefix come from imports and are not checked)
    for (mn, fields) in &s.messages {
        for f in fields {
            if let PType::Named(n) = &f.ty {
                if !n.contains('.') && !s.messages.contains_key(n) && !s.enums.contains_key(n) {
                    return Err(format!("[undefined-type] message {mn}: field {} has the undefined type {n}", f.name));
                }
            }
        }
    }
    Ok(s)
}

// ---------------------------------------------------------------------------------------------
// wire format
// ---------------------------------------------------------------------------------------------

#[derive(Clone, Debug, PartialEq)]
pub enum Wire {
    Varint(u64),
    Fixed64(u64),
    Bytes(Vec<u8>),
    Fixed32(u32),
}

impl Wire {
    pub fn type_name(&self) -> &'static str {
        match self {
            Wire::Varint(_) => "varint",
            Wire::Fixed64(_) => "64-bit",
            Wire::Bytes(_) => "length-delimited",
            Wire::Fixed32(_) => "32-bit",
        }
    }
}

pub fn read_varint(b: &[u8], pos: &mut usize) -> Result<u64, String> {
    let mut v: u64 = 0;
    for i in 0..10 {
        let byte = *b.get(*pos).ok_or("truncated varint")?;
        *pos += 1;
        if i == 9 && byte > 1 {
            return Err("varint exceeds 64 bits".into());
        }
        v |= ((byte & 0x7f) as u64) << (7 * i);
        if byte & 0x80 == 0 {
            return Ok(v);
        }
    }
    Err("varint longer than 10 octets".into())
}

pub fn wire_parse(b: &[u8]) -> Result<Vec<(u32, Wire)>, String> {
    let mut pos = 0;
    let mut out = vec![];
    while pos < b.len() {
        let key = read_varint(b, &mut pos)?;
        let field = key >> 3;
        if field == 0 || field > 536_870_911 {
            return Err(format!("field number {field} is not valid"));
        }
        let w = match key & 7 {
            0 => Wire::Varint(read_varint(b, &mut pos)?),
            1 => {
                let s = b.get(pos..pos + 8).ok_or("truncated 64-bit value")?;
                pos += 8;
                Wire::Fixed64(u64::from_le_bytes(s.try_into().unwrap()))
            }
            2 => {
                let n = read_varint(b, &mut pos)? as usize;
                let s = b.get(pos..pos.checked_add(n).ok_or("length overflow")?).ok_or_else(|| format!("length-delimited field {field} announces {n} octets, {} remain", b.len() - pos))?;
                pos += n;
                Wire::Bytes(s.to_vec())
            }
            5 => {
                let s = b.get(pos..pos + 4).ok_or("truncated 32-bit value")?;
                pos += 4;
                Wire::Fixed32(u32::from_le_bytes(s.try_into().unwrap()))
            }
            t => return Err(format!("wire type {t} (groups / reserved) on field {field}")),
        };
        out.push((field as u32, w));
    }
    Ok(out)
}

#[derive(Clone, Debug, PartialEq)]
pub enum PVal {
    U(u64),
    I(i64),
    Bool(bool),
    Str(String),
    Bytes(Vec<u8>),
    Enum(i64, Option<String>),
    Msg(PMsg),
}

#[derive(Clone, Debug, PartialEq, Default)]
pub struct PMsg {
    pub name: String,
    /// field name -> occurrences in wire order (packed fields unpacked)
    pub fields: BTreeMap<String, Vec<PVal>>,
}

fn zigzag(v: u64) -> i64 {
    ((v >> 1) as i64) ^ -((v & 1) as i64)
}

fn scalar(ty: &PType, w: &Wire, s: &Schema, what: &str) -> Result<PVal, String> {
    let mismatch = || format!("{what}: declared {ty:?} but the wire type is {}", w.type_name());
    Ok(match ty {
        PType::Bool => match w {
            Wire::Varint(v) if *v <= 1 => PVal::Bool(*v == 1),
            Wire::Varint(v) => return Err(format!("{what}: bool with value {v}")),
            _ => return Err(mismatch()),
        },
        // a parser keeps the low 32 bits of a longer varint (protobuf encoding guide, "truncated to 32 bits")
        PType::UInt32 => match w {
            Wire::Varint(v) => PVal::U(*v & 0xffff_ffff),
            _ => return Err(mismatch()),
        },
        PType::UInt64 => match w {
            Wire::Varint(v) => PVal::U(*v),
            _ => return Err(mismatch()),
        },
        PType::SInt32 => match w {
            Wire::Varint(v) => PVal::I(zigzag(*v & 0xffff_ffff)),
            _ => return Err(mismatch()),
        },
        PType::SInt64 => match w {
            Wire::Varint(v) => PVal::I(zigzag(*v)),
            _ => return Err(mismatch()),
        },
        PType::Int32 => match w {
            Wire::Varint(v) => PVal::I(*v as u32 as i32 as i64),
            _ => return Err(mismatch()),
        },
        PType::Int64 => match w {
            Wire::Varint(v) => PVal::I(*v as i64),
            _ => return Err(mismatch()),
        },
        PType::Fixed32 => match w {
            Wire::Fixed32(v) => PVal::U(*v as u64),
            _ => return Err(mismatch()),
        },
        PType::SFixed32 => match w {
            Wire::Fixed32(v) => PVal::I(*v as i32 as i64),
            _ => return Err(mismatch()),
        },
        PType::Fixed64 => match w {
            Wire::Fixed64(v) => PVal::U(*v),
            _ => return Err(mismatch()),
        },
        PType::SFixed64 => match w {
            Wire::Fixed64(v) => PVal::I(*v as i64),
            _ => return Err(mismatch()),
        },
        PType::String => match w {
            Wire::Bytes(b) => PVal::Str(String::from_utf8(b.clone()).map_err(|_| format!("{what}: string is not valid UTF-8"))?),
            _ => return Err(mismatch()),
        },
        PType::Bytes => match w {
            Wire::Bytes(b) => PVal::Bytes(b.clone()),
            _ => return Err(mismatch()),
        },
        PType::Named(n) => {
            if let Some(vals) = s.enums.get(n) {
                match w {
                    Wire::Varint(v) => {
                        let num = *v as i64;
                        PVal::Enum(num, vals.iter().find(|(_, x)| *x == num).map(|(a, _)| a.clone()))
                    }
                    _ => return Err(mismatch()),
                }
            } else if s.messages.contains_key(n) {
                match w {
                    Wire::Bytes(b) => PVal::Msg(decode(s, n, b)?),
                    _ => return Err(mismatch()),
                }
            } else {
                return Err(format!("{what}: type {n} is not defined in this schema"));
            }
        }
    })
}

fn packable(ty: &PType, s: &Schema) -> bool {
    match ty {
        PType::String | PType::Bytes => false,
        PType::Named(n) => s.enums.contains_key(n),
        _ => true,
    }
}

/// Strict decode of `bytes` as message `msg`: every field must be declared with a matching wire type.
pub fn decode(s: &Schema, msg: &str, bytes: &[u8]) -> Result<PMsg, String> {
    let fields = s.messages.get(msg).ok_or_else(|| format!("message {msg} is not defined"))?;
    let mut out = PMsg { name: msg.to_string(), fields: BTreeMap::new() };
    for (num, w) in wire_parse(bytes).map_err(|e| format!("in {msg}: {e}"))? {
        let f = fields.iter().find(|f| f.number == num).ok_or_else(|| format!("message {msg} has no field number {num} (a {} value was sent)", w.type_name()))?;
        let what = format!("{msg}.{}", f.name);
        let slot = out.fields.entry(f.name.clone()).or_default();
        if f.repeated && packable(&f.ty, s) {
            if let Wire::Bytes(b) = &w {
                // packed
                let mut pos = 0;
                while pos < b.len() {
                    let item = match f.ty {
                        PType::Fixed32 | PType::SFixed32 => {
                            let x = b.get(pos..pos + 4).ok_or("truncated packed 32-bit value")?;
                            pos += 4;
                            Wire::Fixed32(u32::from_le_bytes(x.try_into().unwrap()))
                        }
                        PType::Fixed64 | PType::SFixed64 => {
                            let x = b.get(pos..pos + 8).ok_or("truncated packed 64-bit value")?;
                            pos += 8;
                            Wire::Fixed64(u64::from_le_bytes(x.try_into().unwrap()))
                        }
                        _ => Wire::Varint(read_varint(b, &mut pos)?),
                    };
                    slot.push(scalar(&f.ty, &item, s, &what)?);
                }
                continue;
            }
        }
        let v = scalar(&f.ty, &w, s, &what)?;
        if !f.repeated && !slot.is_empty() {
            if matches!(v, PVal::Msg(_)) {
                return Err(format!("{what}: a non-repeated message field occurs twice (a parser would merge them)"));
            }
            return Err(format!("{what}: a non-repeated field occurs twice"));
        }
        slot.push(v);
    }
    // oneof: at most one member
    let mut set: BTreeMap<&str, &str> = BTreeMap::new();
    for f in fields {
        if let Some(o) = &f.oneof {
            if out.fields.get(&f.name).map_or(false, |v| !v.is_empty()) {
                if let Some(prev) = set.insert(o.as_str(), f.name.as_str()) {
                    return Err(format!("{msg}: members {prev} and {} of oneof {o} are both set", f.name));
                }
            }
        }
    }
    Ok(out)
}

// ---------------------------------------------------------------------------------------------
// reference encoder (canonical proto3 encoding of a PMsg), used to cross-check the decoder
// ---------------------------------------------------------------------------------------------

pub fn write_varint(out: &mut Vec<u8>, mut v: u64) {
    loop {
        let b = (v & 0x7f) as u8;
        v >>= 7;
        if v == 0 {
            out.push(b);
            return;
        }
        out.push(b | 0x80);
    }
}

/// protoc text format of a decoded message (fields in schema order) - input for `protoc --encode`
pub fn text_format(s: &Schema, m: &PMsg, indent: usize, out: &mut String) {
    let pad = "  ".repeat(indent);
    let Some(fields) = s.messages.get(&m.name) else { return };
    for f in fields {
        for v in m.fields.get(&f.name).map(|v| v.as_slice()).unwrap_or(&[]) {
            match v {
                PVal::U(x) => out.push_str(&format!("{pad}{}: {x}\n", f.name)),
                PVal::I(x) => out.push_str(&format!("{pad}{}: {x}\n", f.name)),
                PVal::Bool(x) => out.push_str(&format!("{pad}{}: {x}\n", f.name)),
                PVal::Str(x) => out.push_str(&format!("{pad}{}: \"{}\"\n", f.name, escape(x.as_bytes()))),
                PVal::Bytes(x) => out.push_str(&format!("{pad}{}: \"{}\"\n", f.name, escape(x))),
                PVal::Enum(n, name) => out.push_str(&format!("{pad}{}: {}\n", f.name, name.clone().unwrap_or_else(|| n.to_string()))),
                PVal::Msg(inner) => {
                    out.push_str(&format!("{pad}{} {{\n", f.name));
                    text_format(s, inner, indent + 1, out);
                    out.push_str(&format!("{pad}}}\n"));
                }
            }
        }
    }
}

fn escape(b: &[u8]) -> String {
    let mut s = String::new();
    for x in b {
        match x {
            b'"' => s.push_str("\\\""),
            b'\\' => s.push_str("\\\\"),
            0x20..=0x7e => s.push(*x as char),
            _ => s.push_str(&format!("\\{:03o}", x)),
        }
    }
    s
}

#[cfg(test)]
mod tests {
    use super::*;
    #[test]
    fn decodes_spec_examples() {
        // protobuf encoding guide: message Test1 { int32 a = 1; } a = 150 -> 08 96 01
        let s = parse("syntax = 'proto3'; message Test1 { int32 a = 1; } message Test2 { string b = 2; } message Test3 { Test1 c = 3; } message Test4 { repeated int32 d = 4; }").unwrap();
        assert_eq!(decode(&s, "Test1", &[0x08, 0x96, 0x01]).unwrap().fields["a"], vec![PVal::I(150)]);
        assert_eq!(decode(&s, "Test2", &[0x12, 0x07, 0x74, 0x65, 0x73, 0x74, 0x69, 0x6e, 0x67]).unwrap().fields["b"], vec![PVal::Str("testing".into())]);
        let m = decode(&s, "Test3", &[0x1a, 0x03, 0x08, 0x96, 0x01]).unwrap();
        assert!(matches!(&m.fields["c"][0], PVal::Msg(i) if i.fields["a"] == vec![PVal::I(150)]));
        assert_eq!(decode(&s, "Test4", &[0x22, 0x06, 0x03, 0x8e, 0x02, 0x9e, 0xa7, 0x05]).unwrap().fields["d"], vec![PVal::I(3), PVal::I(270), PVal::I(86942)]);
        assert_eq!(zigzag(1), -1);
        assert_eq!(zigzag(4294967294), 2147483647);
        assert!(decode(&s, "Test1", &[0x10, 0x01]).is_err());
        assert!(decode(&s, "Test1", &[0x0a, 0x00]).is_err());
    }
}

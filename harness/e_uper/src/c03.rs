//! C03 — presence semantics for every SEQUENCE/SET shape x every presence pattern.

use crate::*;

/// All presence patterns of a C03 shape (components are INTEGER (0..7), DEFAULT 5):
/// OPTIONAL in {absent, present}, DEFAULT in {= default, != default}, addition in {absent, present}.
pub fn presence_values(ctx: &Ctx, e: &Entry) -> Vec<Value> {
    let d = ctx.def_of(e);
    let (comps, ext_after) = match &d.ty {
        Ty::Seq { comps, ext_after, .. } => (comps, ext_after),
        _ => return values_of(ctx, e),
    };
    let nroot = ext_after.unwrap_or(comps.len());
    let mut doms: Vec<Vec<Option<Value>>> = vec![];
    for (i, c) in comps.iter().enumerate() {
        let mut val = if comps.len() > 8 { (i % 7 + 1) as i128 } else { (i + 1) as i128 };
        let is_default = matches!(c.presence, Presence::Default(_));
        if is_default && val == 5 {
            val = 6;
        }
        let present = Some(sample_value(ctx.module_of(e), &c.ty, val));
        let dom = match (&c.presence, i >= nroot) {
            (Presence::Mandatory, false) => vec![present],
            (Presence::Mandatory, true) | (Presence::Optional, _) => vec![None, present],
            (Presence::Default(_), _) => vec![Some(Value::Int(5)), present],
        };
        doms.push(dom);
    }
    vcore::values::product_or_diagonal(&doms, 1 << 12).into_iter().map(Value::Seq).collect()
}

/// a value of `ty` that identifies the component it stands in (INTEGER: `val`; a SEQUENCE: built from `val`)
fn sample_value(m: &Module, ty: &Ty, val: i128) -> Value {
    match m.resolve(ty) {
        Ty::Int { .. } => Value::Int(val),
        Ty::Bool => Value::Bool(val % 2 == 1),
        Ty::Seq { comps, .. } => Value::Seq(comps.iter().map(|c| Some(sample_value(m, &c.ty, val))).collect()),
        Ty::Choice { alts, .. } => {
            let i = (val as usize) % alts.len();
            Value::Choice(i, Box::new(sample_value(m, &alts[i].ty, val)))
        }
        other => panic!("C03 shapes: no sample value for {}", other.asn()),
    }
}

/// The encoder may refuse only with ExtensionFieldsInconsistent and only when the first extension
/// addition is absent while a later one is present.
fn refusal_allowed(m: &Module, ty: &Ty, v: &Value) -> bool {
    if let (Ty::Seq { comps, ext_after: Some(k), .. }, Value::Seq(vals)) = (m.resolve(ty), v) {
        let encoded = |i: usize| match (&comps[i].presence, &vals[i]) {
            (_, None) => false,
            (Presence::Default(l), Some(x)) => lit_value(m, &comps[i].ty, l).normalize() != x.normalize(),
            _ => true,
        };
        if *k < comps.len() {
            return !encoded(*k) && (*k + 1..comps.len()).any(encoded);
        }
    }
    false
}

pub fn check_case(ctx: &Ctx, e: &Entry, v: &Value, agg: &mut Agg) {
    let m = ctx.module_of(e);
    let d = ctx.def_of(e);
    if !representable(e.ops, v) {
        agg.count("skipped_unrepresentable_in_generated_type", 1);
        return;
    }
    let mut applicable = Quirks::new();
    refper::applicable_quirks(m, &d.ty, v, &mut applicable);
    let kind = type_kind(m, &d.ty);
    // (c) the refusal rule
    match impl_encode(e.ops, v, 0) {
        Ok(Err((k, detail))) => {
            agg.count("evaluations", 1);
            let allowed = k == "ExtensionFieldsInconsistent" && refusal_allowed(m, &d.ty, v);
            if allowed {
                agg.count("documented_refusals", 1);
                // the WRITER may refuse this presence pattern; a conforming sender produces it, and the reader must
                // decode it (absent decodes as absent) - unless a recorded quirk changes what this reader expects
                if open_only(&applicable, "C03").is_empty() {
                    if let Ok(strict) = refper::encode_top(m, e.def, v) {
                        agg.count("refused_patterns_decoded_from_reference_bits", 1);
                        let case = || case_json(e, v, 0, "c03");
                        match impl_decode(e.ops, &strict.bits, 0) {
                            Err(p) => agg.fail(format!("refused-pattern.read-panic.{kind}"), case(), v.short(), format!("panic: {p}")),
                            Ok(Err((_, detail))) => agg.fail(format!("refused-pattern.read-err.{kind}"), case(), v.short(), format!("Err({detail}) on {}", show_bits(&strict.bits))),
                            Ok(Ok(dec)) => {
                                if dec.value != v.normalize() {
                                    agg.fail(format!("refused-pattern.read-value.{kind}"), case(), v.short(), dec.value.short());
                                } else if dec.remaining != 0 {
                                    agg.fail(format!("refused-pattern.read-remaining.{kind}"), case(), "0 bits remaining".into(), format!("{} bits remaining", dec.remaining));
                                }
                            }
                        }
                    }
                }
            } else if applicable.contains(&refper::Quirk::MarkerBeforeFirstAsAfterFirst) && k == "ExtensionFieldsInconsistent" {
                // under the recorded quirk the subject's "first addition" is the second component
                let mut q = Quirks::new();
                q.insert(refper::Quirk::MarkerBeforeFirstAsAfterFirst);
                agg.fail(format!("{}.refusal", quirk_class(&q)), case_json(e, v, 0, "c03"), "Ok".into(), format!("Err({detail})"));
            } else {
                agg.fail(format!("refusal-not-allowed.{kind}"), case_json(e, v, 0, "c03"), "Ok (the only permitted refusal is ExtensionFieldsInconsistent with the first addition absent and a later one present)".into(), format!("Err({detail})"));
            }
            return;
        }
        _ => {}
    }
    // (a) bits incl. presence bits / extension bit against the reference, reader on reference bits
    check_c02_case(ctx, e, v, agg);
    // (b) absent decodes as absent, default-equal decodes to the default: round trip on the abstract value
    let before: Vec<(String, u64)> = ["evaluations", "nontrivial"].iter().map(|k| (k.to_string(), agg.counters.get(*k).copied().unwrap_or(0))).collect();
    check_c01_case(ctx, e, v, &[0], agg);
    // count each case once
    for (k, n) in before {
        agg.counters.insert(k, n);
    }
}

pub fn run_entry(ctx: &Ctx, e: &Entry, agg: &mut Agg) {
    for v in presence_values(ctx, e) {
        check_case(ctx, e, &v, agg);
    }
}

//! C05 — extension additions are forward/backward compatible across schema versions.
//! Space: every pair (v1 < v2) of every version chain (vbase::zoo_c05) x every value of either
//! version (all presence patterns of additions) x both directions, with a sentinel value written
//! after the message in the same writer.

use crate::*;
use vcore::zoo_c05::{chains, Chain};

#[derive(Debug)]
enum Conv {
    Ok(Value),
    /// the receiving version does not know this CHOICE alternative / ENUMERATED item
    Unknown(String),
}

/// Value of `from` type seen through the `to` type: additions unknown to `to` are dropped (project),
/// additions only `to` knows are absent / at their DEFAULT (embed).
fn convert(mf: &Module, tf: &Ty, mt: &Module, tt: &Ty, v: &Value) -> Conv {
    let (tf, tt) = (mf.resolve(tf), mt.resolve(tt));
    match (tf, tt, v) {
        (Ty::Seq { comps: cf, .. }, Ty::Seq { comps: ct, .. }, Value::Seq(vals)) => {
            let mut out = vec![];
            for (i, c) in ct.iter().enumerate() {
                if i < cf.len() {
                    match &vals[i] {
                        None => out.push(None),
                        Some(x) => match convert(mf, &cf[i].ty, mt, &c.ty, x) {
                            Conv::Ok(y) => out.push(Some(y)),
                            u => return u,
                        },
                    }
                } else {
                    match &c.presence {
                        Presence::Default(l) => out.push(Some(lit_value(mt, &c.ty, l))),
                        _ => out.push(None),
                    }
                }
            }
            Conv::Ok(Value::Seq(out))
        }
        (Ty::Choice { alts: af, .. }, Ty::Choice { alts: at, .. }, Value::Choice(i, inner)) => {
            if *i >= at.len() {
                return Conv::Unknown(format!("alternative {} is unknown to the receiver", af[*i].name));
            }
            match convert(mf, &af[*i].ty, mt, &at[*i].ty, inner) {
                Conv::Ok(y) => Conv::Ok(Value::Choice(*i, Box::new(y))),
                u => u,
            }
        }
        (Ty::Enum { .. }, Ty::Enum { root, ext }, Value::Enum(i)) => {
            let n = root.len() + ext.as_ref().map_or(0, |e| e.len());
            if *i >= n { Conv::Unknown(format!("enumeration item #{i} is unknown to the receiver")) } else { Conv::Ok(v.clone()) }
        }
        (Ty::SeqOf { inner: inf, .. }, Ty::SeqOf { inner: int, .. }, Value::List(l)) => {
            let mut out = vec![];
            for x in l {
                match convert(mf, inf, mt, int, x) {
                    Conv::Ok(y) => out.push(y),
                    u => return u,
                }
            }
            Conv::Ok(Value::List(out))
        }
        _ => Conv::Ok(v.clone()),
    }
}

/// Does the value carry a PRESENT extension addition that the receiving type does not know, in a
/// SEQUENCE/SET that is not itself inside an open type? (recorded finding: such additions are not
/// skipped, the reader stops before them)
fn has_unskipped_unknown_addition(mf: &Module, tf: &Ty, mt: &Module, tt: &Ty, v: &Value, in_open_type: bool) -> bool {
    let (tf, tt) = (mf.resolve(tf), mt.resolve(tt));
    match (tf, tt, v) {
        (Ty::Seq { comps: cf, ext_after: ef, .. }, Ty::Seq { comps: ct, .. }, Value::Seq(vals)) => {
            let nroot = ef.unwrap_or(cf.len());
            for (i, c) in cf.iter().enumerate() {
                if let Some(x) = &vals[i] {
                    if i >= ct.len() {
                        let encoded = match &c.presence {
                            Presence::Default(l) => lit_value(mf, &c.ty, l).normalize() != x.normalize(),
                            _ => true,
                        };
                        if encoded && !in_open_type {
                            return true;
                        }
                    } else if has_unskipped_unknown_addition(mf, &c.ty, mt, &ct[i].ty, x, in_open_type || i >= nroot) {
                        return true;
                    }
                }
            }
            false
        }
        (Ty::Choice { alts: af, ext_after: ef }, Ty::Choice { alts: at, .. }, Value::Choice(i, inner)) => {
            *i < at.len() && has_unskipped_unknown_addition(mf, &af[*i].ty, mt, &at[*i].ty, inner, in_open_type || *i >= ef.unwrap_or(af.len()))
        }
        _ => false,
    }
}

const SENTINEL: i128 = 0xA5;

struct Side<'a> {
    module: &'a Module,
    msg: &'a Entry,
    sent: &'a Entry,
    version: usize,
}

fn side<'a>(ctx: &'a Ctx, c: &Chain, v: usize) -> Option<Side<'a>> {
    let id = format!("c05{}{v}", c.name);
    let msg = ctx.find(&id, "Tmsg")?;
    let sent = ctx.find(&id, "Tsent")?;
    Some(Side { module: ctx.module_of(msg), msg, sent, version: v })
}

/// one (sender version, receiver version, value) case
fn check(chain: &Chain, from: &Side, to: &Side, v: &Value, agg: &mut Agg) {
    let tf = &from.module.find("Tmsg").unwrap().ty;
    let tt = &to.module.find("Tmsg").unwrap().ty;
    if !representable(from.msg.ops, v) {
        agg.count("skipped_unrepresentable_in_generated_type", 1);
        return;
    }
    let dir = if from.version < to.version { "old-to-new" } else if from.version > to.version { "new-to-old" } else { "same-version" };
    let case = || json!({"kind": "c05", "chain": chain.name, "from": from.version, "to": to.version, "value": v.to_json()});
    // sender: message, then the sentinel, in ONE writer
    let written = catch(|| {
        let mut w = UperWriter::default();
        from.msg.ops.uper_write(&mut w, v)?;
        let msg_bits = w.bit_len();
        from.sent.ops.uper_write(&mut w, &Value::Int(SENTINEL))?;
        Ok::<_, zoo::PerErr>((unpack_n(w.byte_content(), w.bit_len()), msg_bits))
    });
    let (bits, msg_bits) = match written {
        Err(p) => return agg.fail(format!("c05.{dir}.encode-panic"), case(), "Ok or Err".into(), format!("panic: {p}")),
        Ok(Err((k, _))) => {
            // the documented refusal (first addition absent, later one present) is C03's business
            agg.count(&format!("sender_refused_{k}"), 1);
            return;
        }
        Ok(Ok(x)) => x,
    };
    agg.count("evaluations", 1);
    agg.count("nontrivial", 1);
    if agg.samples.len() < 2 && from.version != to.version {
        agg.samples.push(json!({"chain": chain.name, "sender_version": from.version, "receiver_version": to.version, "value": v.short(), "message_bits": msg_bits}));
    }
    let expected = convert(from.module, tf, to.module, tt, v);
    let known_unskipped = has_unskipped_unknown_addition(from.module, tf, to.module, tt, v, false);
    let bytes = pack(&bits);
    let got = catch(|| {
        let mut r = UperReader::from((&bytes[..], bits.len()));
        let m = to.msg.ops.uper_read(&mut r);
        let after_msg = bits.len() - r.bits_remaining();
        let m = match m {
            Ok(m) => m,
            Err(e) => return (Err(e), after_msg, None, r.bits_remaining()),
        };
        let s = to.sent.ops.uper_read(&mut r);
        (Ok(m), after_msg, Some(s), r.bits_remaining())
    });
    let (msg, after_msg, sentinel, remaining) = match got {
        Err(p) => return agg.fail(format!("c05.{dir}.decode-panic"), case(), "Ok or Err".into(), format!("panic: {p}")),
        Ok(x) => x,
    };
    let kf = |cls: &str| if known_unskipped { format!("c05.known.unknown-additions-not-skipped.{cls}") } else { format!("c05.{dir}.{cls}") };
    match (expected, msg) {
        (Conv::Unknown(_), Err(_)) => agg.count("unknown_alternative_reported_as_error", 1),
        (Conv::Unknown(why), Ok(m)) => {
            // an unknown CHOICE/ENUMERATED extension value may be an error but never a wrong value
            agg.fail(format!("c05.{dir}.unknown-extension-value-decoded-as-a-value"), case(), format!("Err ({why})"), format!("Ok({})", m.short()));
        }
        (Conv::Ok(exp), Err((_, detail))) => agg.fail(kf("decode-err"), case(), exp.short(), format!("Err({detail}) from {}", show_bits(&bits[..msg_bits]))),
        (Conv::Ok(exp), Ok(m)) => {
            if m != exp.normalize() {
                return agg.fail(kf("wrong-value"), case(), exp.short(), format!("{} from {}", m.short(), show_bits(&bits[..msg_bits])));
            }
            // the reader must end exactly at the end of the message so that what follows decodes
            let sent_ok = matches!(&sentinel, Some(Ok(Value::Int(x))) if *x == SENTINEL) && remaining == 0 && after_msg == msg_bits;
            if !sent_ok {
                if known_unskipped {
                    // recorded finding: the root content is right (checked above), the cursor is not
                    agg.fail("c05.known.unknown-additions-not-skipped".into(), case(), format!("reader ends after {msg_bits} bits, sentinel 165, 0 bits remaining"), format!("reader ends after {after_msg} bits, sentinel {:?}, {remaining} bits remaining", sentinel.map(|s| s.map(|v| v.short()))));
                } else {
                    agg.fail(format!("c05.{dir}.reader-does-not-end-at-end-of-message"), case(), format!("reader ends after {msg_bits} bits, sentinel 165, 0 bits remaining"), format!("reader ends after {after_msg} bits, sentinel {:?}, {remaining} bits remaining", sentinel.map(|s| s.map(|v| v.short()))));
                }
            }
        }
    }
}

fn chain_values(s: &Side, thorough: bool) -> Vec<Value> {
    let b = Budget { max_size: 400, nested_leaf: 2, product_cap: if thorough { 2048 } else { 256 }, ext_out: false, large_sizes: &[] };
    values::values(s.module, &s.module.find("Tmsg").unwrap().ty, &b)
}

fn pairs(ctx: &Ctx) -> Vec<(Chain, usize, usize)> {
    let mut out = vec![];
    for c in chains() {
        let maxv = if ctx.thorough { c.additions } else { c.quick_versions };
        for a in 0..=maxv {
            for b in 0..=maxv {
                // controls (same version) only for the first and last version
                if a == b && a != 0 && a != maxv {
                    continue;
                }
                out.push((c.clone(), a, b));
            }
        }
    }
    out
}

pub fn run(args: &Args) -> ! {
    let ctx = Ctx::new(args.tier);
    let ps = pairs(&ctx);
    if let Some(cctx) = vcore::sweep::child_ctx() {
        vcore::sweep::limit_address_space(8 << 30);
        let agg = std::cell::RefCell::new(Agg::new());
        vcore::sweep::child_loop(
            &cctx,
            ps.len(),
            2,
            |idx| {
                let (c, a, b) = &ps[idx];
                let mut ag = agg.borrow_mut();
                let (from, to) = match (side(&ctx, c, *a), side(&ctx, c, *b)) {
                    (Some(f), Some(t)) => (f, t),
                    _ => {
                        ag.count("pairs_missing_in_zoo", 1);
                        return;
                    }
                };
                ag.count("version_pairs", 1);
                for v in chain_values(&from, ctx.thorough) {
                    check(c, &from, &to, &v, &mut ag);
                }
            },
            || {
                let mut a = agg.borrow_mut();
                let v = a.to_json();
                a.clear();
                v
            },
        );
    }
    let mut report = Report::new(args, "model_checking");
    let res = vcore::sweep::sweep("C05", vcore::shard::default_shards(), std::time::Duration::from_secs(120), &[]);
    let mut agg = Agg::new();
    for c in &res.chunks {
        agg.merge_json(c);
    }
    for cr in &res.crashes {
        let (c, a, b) = &ps[cr.index];
        agg.fail(format!("c05.process-{}", cr.what.split('(').next().unwrap_or("abort")), json!({"kind":"c05-pair","chain":c.name,"from":a,"to":b}), "every case returns".into(), format!("worker died: {}", cr.what));
    }
    for (k, (n, f)) in std::mem::take(&mut agg.fails) {
        report.merge(k, n, f);
    }
    let evals = agg.counters.get("evaluations").copied().unwrap_or(0);
    if evals == 0 || agg.counters.get("pairs_missing_in_zoo").copied().unwrap_or(0) > 0 {
        machinery_error("C05: no case evaluated or version modules missing from the compiled zoo");
    }
    let mut cov = Map::new();
    cov.insert("exhaustive".into(), json!(true));
    cov.insert("evaluations".into(), json!(evals));
    cov.insert("distinct_nontrivial".into(), json!(evals));
    cov.insert("states".into(), json!(agg.counters.get("version_pairs").copied().unwrap_or(0)));
    cov.insert("transitions".into(), json!(evals));
    cov.insert("traces_validated_against_impl".into(), json!(evals));
    cov.insert("counters".into(), json!(agg.counters));
    cov.insert("chains".into(), json!(chains().iter().map(|c| json!({"chain": c.name, "kind": format!("{:?}", c.kind), "versions": if ctx.thorough { c.additions } else { c.quick_versions } + 1})).collect::<Vec<_>>()));
    cov.insert("rule".into(), json!("every ordered pair (sender version, receiver version) of every chain x every value of the sender version (all presence patterns of additions x covering diagonal of contents): message + sentinel INTEGER(0..255)=0xA5 written into one real writer, read with the receiver's generated type: value == project/embed(sent value) on abstract values, unknown CHOICE/ENUMERATED values only as Err, reader ends exactly at the message end (sentinel decodes, 0 bits remaining). states = version pairs, transitions = messages exchanged. every (pair, value) is distinct and non-trivial"));
    cov.insert("samples".into(), J::Array(agg.samples.clone()));
    report.finish(cov, vec!["project/embed are computed on the harness' abstract values (vcore), never by the subject".into(), "the sender's documented refusal (ExtensionFieldsInconsistent) is counted, not judged (C03)".into()])
}

pub fn replay(ctx: &Ctx, c: &J, agg: &mut Agg) {
    let name = c["chain"].as_str().unwrap_or("");
    let chain = match chains().into_iter().find(|x| x.name == name) {
        Some(x) => x,
        None => return,
    };
    let (a, b) = (c["from"].as_u64().unwrap() as usize, c["to"].as_u64().unwrap() as usize);
    if let (Some(f), Some(t)) = (side(ctx, &chain, a), side(ctx, &chain, b)) {
        let v = Value::from_json(&c["value"]);
        check(&chain, &f, &t, &v, agg);
    }
}

use crate::*;
pub fn run(_args: &Args) -> ! {
    machinery_error("C05 not built yet")
}
pub fn replay(_ctx: &Ctx, _c: &J, _agg: &mut Agg) {}

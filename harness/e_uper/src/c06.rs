//! C06 — the encoder rejects values outside non-extensible constraints; extensible constraints
//! encode out-of-root values in the extension form and still round trip.

use crate::*;

/// Values that violate exactly one constraint somewhere inside (with a description of where).
pub fn invalid_values(m: &Module, ty: &Ty, depth: usize) -> Vec<(Value, String)> {
    let b = Budget::quick();
    let ty = m.resolve(ty);
    let valid = || values::values(m, ty, &Budget { nested_leaf: 2, ..b });
    let mut out: Vec<(Value, String)> = vec![];
    match ty {
        Ty::Int { range: Some(r), .. } => {
            let mut c: Vec<i128> = vec![];
            if let Some(l) = r.lb() {
                let l = l as i128;
                c.extend([l - 1, l - 2, l - 256, l - 65536, l - (1i128 << 32)]);
            }
            if let Some(u) = r.ub() {
                let u = u as i128;
                c.extend([u + 1, u + 2, u + 256, u + 65536, u + (1i128 << 32)]);
                // the extremes of every Rust integer type that could hold the field
                c.extend([255, 65535, 4294967295, i64::MAX as i128, u64::MAX as i128]);
            }
            if r.lb().is_some() {
                c.extend([-128, -32768, -2147483648, i64::MIN as i128]);
            }
            c.sort();
            c.dedup();
            for x in c {
                let inside = r.lb().map_or(true, |l| x >= l as i128) && r.ub().map_or(true, |u| x <= u as i128);
                if !inside && x >= i64::MIN as i128 && x <= u64::MAX as i128 {
                    out.push((Value::Int(x), format!("integer {x} outside {:?}..{:?}", r.lb(), r.ub())));
                }
            }
        }
        Ty::BitStr { size, .. } | Ty::OctStr { size, .. } | Ty::Str { size, .. } | Ty::SeqOf { size, .. } if *size != Size::Any || matches!(ty, Ty::Str { .. } | Ty::SeqOf { .. }) => {
            let mut sizes: Vec<u64> = vec![];
            if size.lb() > 0 {
                sizes.extend([size.lb() - 1, 0]);
            }
            if let Some(u) = size.ub() {
                sizes.extend([u + 1, u + 2, 2 * u + 1]);
            }
            sizes.sort();
            sizes.dedup();
            sizes.retain(|n| !size.contains(*n) && *n <= 70010);
            for n in sizes {
                let any = match ty {
                    Ty::BitStr { .. } => Ty::bits(Size::Any),
                    Ty::OctStr { .. } => Ty::oct(Size::Any),
                    Ty::Str { cs, .. } => Ty::string(*cs, Size::Any),
                    Ty::SeqOf { inner, set, .. } => Ty::SeqOf { set: *set, size: Size::Any, paren: true, inner: inner.clone() },
                    _ => unreachable!(),
                };
                // a value of exactly n items of the unconstrained sibling type
                let fix = match &any {
                    Ty::BitStr { .. } => Ty::bits(Size::Fix(n, false)),
                    Ty::OctStr { .. } => Ty::oct(Size::Fix(n, false)),
                    Ty::Str { cs, .. } => Ty::string(*cs, Size::Fix(n, false)),
                    Ty::SeqOf { inner, set, .. } => Ty::SeqOf { set: *set, size: Size::Fix(n, false), paren: true, inner: inner.clone() },
                    _ => unreachable!(),
                };
                let big = Budget { max_size: 70010, nested_leaf: 2, product_cap: 64, ext_out: false, large_sizes: &[] };
                if let Some(v) = values::values(m, &fix, &big).into_iter().last() {
                    out.push((v, format!("size {n} outside {size:?}")));
                }
            }
            // illegal characters at first / middle / last position of a min-, mid- and max-length value
            if let Ty::Str { cs, .. } = ty {
                if *cs != Charset::Utf8 {
                    let alphabet = cs.alphabet();
                    let mut bad: Vec<char> = vec![];
                    let lo = *alphabet.first().unwrap() as u32;
                    let hi = *alphabet.last().unwrap() as u32;
                    if lo > 0 {
                        bad.push(char::from_u32(lo - 1).unwrap());
                    }
                    bad.push(char::from_u32(hi + 1).unwrap());
                    bad.extend(['é', '€', '𝄞', '\u{80}', '\u{ff}']);
                    if *cs == Charset::Numeric {
                        bad.extend(['a', '/', ':', '-']);
                    }
                    if *cs == Charset::Printable {
                        bad.extend(['*', '@', '_', '!', '"']);
                    }
                    bad.retain(|c| !alphabet.contains(c));
                    let lens: Vec<u64> = {
                        let lb = size.lb().max(1);
                        let ub = size.ub().unwrap_or(lb + 6).min(lb + 40);
                        let mut l = vec![lb, (lb + ub) / 2, ub];
                        l.dedup();
                        // only lengths the SIZE constraint permits (exactly one violated constraint)
                        l.retain(|n| *n >= 1 && size.contains(*n));
                        l
                    };
                    for n in lens {
                        let base: Vec<char> = (0..n as usize).map(|i| alphabet[(i * 37 + 11) % alphabet.len()]).collect();
                        let mut positions = vec![0usize, n as usize / 2, n as usize - 1];
                        positions.dedup();
                        for pos in positions {
                            for c in &bad {
                                let mut s = base.clone();
                                s[pos] = *c;
                                out.push((Value::Str(s.into_iter().collect()), format!("illegal character {c:?} at position {pos} of {n}")));
                            }
                        }
                    }
                }
            }
            // an element out of range inside an otherwise valid list
            if let Ty::SeqOf { inner, .. } = ty {
                if depth < 2 {
                    let inv = invalid_values(m, inner, depth + 1);
                    let good = values::values(m, inner, &Budget { nested_leaf: 2, ..b });
                    if let (Some((bad, why)), Some(g)) = (inv.first(), good.first()) {
                        for n in [size.lb().max(1), size.lb().max(1) + 1] {
                            if size.contains(n) {
                                for pos in [0usize, n as usize - 1] {
                                    let mut l: Vec<Value> = (0..n).map(|_| g.clone()).collect();
                                    l[pos] = bad.clone();
                                    out.push((Value::List(l), format!("element {pos} of {n}: {why}")));
                                }
                            }
                        }
                    }
                }
            }
        }
        Ty::Seq { comps, .. } if depth < 2 => {
            if let Some(Value::Seq(base)) = valid().into_iter().last() {
                for (i, c) in comps.iter().enumerate() {
                    for (bad, why) in invalid_values(m, &c.ty, depth + 1).into_iter().take(3) {
                        let mut s = base.clone();
                        s[i] = Some(bad);
                        out.push((Value::Seq(s), format!("component {}: {why}", c.name)));
                    }
                }
            }
        }
        Ty::Choice { alts, .. } if depth < 2 => {
            for (i, a) in alts.iter().enumerate() {
                for (bad, why) in invalid_values(m, &a.ty, depth + 1).into_iter().take(3) {
                    out.push((Value::Choice(i, Box::new(bad)), format!("alternative {}: {why}", a.name)));
                }
            }
        }
        _ => {}
    }
    out
}

pub fn check_case(ctx: &Ctx, e: &Entry, v: &Value, agg: &mut Agg) {
    let m = ctx.module_of(e);
    let d = ctx.def_of(e);
    let kind = type_kind(m, &d.ty);
    if !representable(e.ops, v) {
        agg.count("skipped_unrepresentable_in_generated_type", 1);
        return;
    }
    agg.count("evaluations", 1);
    agg.count("nontrivial", 1);
    if agg.samples.len() < 2 {
        agg.samples.push(json!({"type": format!("{}::{} ::= {}", e.module_id, e.def, truncate(&d.ty.asn(), 100)), "value": v.short(), "abstract_validity": format!("{:?}", check_value(m, &d.ty, v))}));
    }
    let case = || case_json(e, v, 0, "c06");
    // validity is judged on the abstract constraint, not by the reference encoder (a UTF8String SIZE
    // is not PER-visible but still a constraint the encoder has to enforce)
    let strict = match check_value(m, &d.ty, v) {
        Validity::Invalid(why) => Err(refper::RefError(why)),
        Validity::InRoot => {
            agg.count("generated_value_was_valid_after_all", 1);
            return;
        }
        Validity::InExtension => refper::encode_top(m, e.def, v),
    };
    let mut applicable = Quirks::new();
    refper::applicable_quirks(m, &d.ty, v, &mut applicable);
    let applicable = crate::open_only(&applicable, "C06");
    match (&strict, impl_encode(e.ops, v, 0)) {
        (_, Err(p)) => agg.fail(format!("encode-panic.{kind}"), case(), "Err (or Ok for an extensible constraint)".into(), format!("panic: {p}")),
        (Err(_), Ok(Err(_))) => agg.count("rejected_as_required", 1),
        (Err(why), Ok(Ok(bits))) => {
            // accepted although outside a non-extensible constraint; what does it decode to?
            let dec = impl_decode(e.ops, &bits, 0);
            let (cls, obs) = match dec {
                Ok(Ok(dv)) if dv.value == v.normalize() => ("accepted-outside-constraint-roundtrips", format!("Ok({}), decodes to the same value", show_bits(&bits))),
                Ok(Ok(dv)) => ("accepted-outside-constraint-decodes-to-different-value", format!("Ok({}), decodes to {}", show_bits(&bits), dv.value.short())),
                Ok(Err((_, d))) => ("accepted-outside-constraint-undecodable", format!("Ok({}), decoding fails with {d}", show_bits(&bits))),
                Err(p) => ("accepted-outside-constraint-decode-panics", format!("Ok({}), decoding panics: {p}", show_bits(&bits))),
            };
            let cls = if applicable.is_empty() { format!("{cls}.{kind}") } else { format!("{}.{cls}", quirk_class(&applicable)) };
            agg.fail(cls, case(), format!("Err ({})", why.0), obs);
        }
        (Ok(s), Ok(Err((_, detail)))) => {
            let cls = if applicable.is_empty() { format!("extensible-out-of-root-rejected.{kind}") } else { format!("{}.extensible-out-of-root-rejected", quirk_class(&applicable)) };
            agg.fail(cls, case(), format!("Ok({})", show_bits(&s.bits)), format!("Err({detail})"));
        }
        (Ok(s), Ok(Ok(bits))) => {
            agg.count("extensible_out_of_root", 1);
            if bits != s.bits {
                match refper::explain_with_quirks(m, e.def, v, &bits, &applicable) {
                    Some(q) => agg.fail(quirk_class(&q), case(), show_bits(&s.bits), show_bits(&bits)),
                    None => agg.fail(format!("extension-form-bits.{kind}"), case(), show_bits(&s.bits), show_bits(&bits)),
                }
            }
            match impl_decode(e.ops, &bits, 0) {
                Ok(Ok(dv)) if dv.value == v.normalize() && dv.remaining == 0 => {}
                other => {
                    let cls = if applicable.iter().any(|q| matches!(q, refper::Quirk::NoListFragmentation)) { format!("{}.extension-form-roundtrip", quirk_class(&applicable)) } else { format!("extension-form-roundtrip.{kind}") };
                    agg.fail(cls, case(), v.short(), format!("{other:?}").chars().take(300).collect())
                }
            }
        }
    }
}

pub fn run_entry(ctx: &Ctx, e: &Entry, agg: &mut Agg) {
    let m = ctx.module_of(e);
    let d = ctx.def_of(e);
    for (v, _why) in invalid_values(m, &d.ty, 0) {
        check_case(ctx, e, &v, agg);
    }
}

//! C16 — SET components in canonical tag order (X.680 8.6), tags per X.680; SEQUENCE textual.
//! (a) expand level: every permutation of every <=k subset of the 16-component pool x marker
//!     position, as SET and SEQUENCE, through the REAL front end + generator + attribute parser +
//!     expand(): order of write_value/read_value calls and TAG constants;
//! (b) wire level: the compiled permutations (<=2 / <=3 components, every second one OPTIONAL)
//!     against refper, all presence patterns.

use crate::*;
use quote::ToTokens;
use rayon::prelude::*;
use vcore::zoo_c16::{helper_defs, make_type, orderings, pool};

#[derive(Debug, Clone)]
struct ExpCase {
    set: bool,
    ord: Vec<usize>,
    /// number of root components (None = no marker); additions are the rest, in ascending tag order
    marker: Option<usize>,
}

fn build(c: &ExpCase) -> (Module, Ty) {
    let mut ord = c.ord.clone();
    if let Some(k) = c.marker {
        // profile P (DESIGN 4.4): extension additions textually in canonical tag order
        let probe = helper_defs(Module::new("Zx"));
        let p = pool();
        let comps: Vec<Comp> = ord.iter().map(|i| p[*i].clone()).collect();
        let tags = refper::comp_tags(&probe, &comps);
        let mut adds: Vec<(vcore::schema::Tag, usize)> = (k..ord.len()).map(|j| (tags[j], ord[j])).collect();
        adds.sort();
        for (j, (_, o)) in adds.into_iter().enumerate() {
            ord[k + j] = o;
        }
    }
    let ty = make_type(c.set, &ord, c.marker);
    let m = helper_defs(Module::new("Zx")).def("Tx", ty.clone());
    (m, ty)
}

fn camel(field: &str) -> String {
    // generated helper names: AsnDef<Type>Field<FieldName in UpperCamel>
    let mut out = String::new();
    let mut up = true;
    for ch in field.chars() {
        if ch == '_' || ch == '-' {
            up = true;
        } else if up {
            out.push(ch.to_ascii_uppercase());
            up = false;
        } else {
            out.push(ch);
        }
    }
    out
}

struct Expanded {
    write_order: Vec<String>,
    read_order: Vec<String>,
    field_tags: Vec<(String, String)>,
}

fn expand_type(text: &str) -> Result<Expanded, String> {
    let code = asn1rs_model::proc_macro::asn_to_rust(text);
    let file = syn::parse_file(&code).map_err(|e| format!("generated code does not parse: {e}"))?;
    for item in file.items {
        if let syn::Item::Struct(mut s) = item {
            if s.ident != "Tx" {
                continue;
            }
            let attr = s.attrs.iter().find(|a| a.path().is_ident("asn")).ok_or("no #[asn] attribute")?.clone();
            s.attrs.retain(|a| !a.path().is_ident("asn"));
            let attr_tokens = match &attr.meta {
                syn::Meta::List(l) => l.tokens.clone(),
                _ => return Err("unexpected attribute form".into()),
            };
            let field_names: Vec<String> = match &s.fields {
                syn::Fields::Named(n) => n.named.iter().map(|f| f.ident.as_ref().unwrap().to_string()).collect(),
                _ => vec![],
            };
            let (def, _item) = asn1rs_model::proc_macro::parse_asn_definition(attr_tokens, s.to_token_stream()).map_err(|e| format!("attribute re-parse failed: {e}"))?;
            let out: String = asn1rs_model::proc_macro::expand(def).iter().map(|t| t.to_string()).collect::<Vec<_>>().join(" ");
            // order of write_value calls
            let wpos = out.find("fn write_seq").ok_or("no write_seq in expansion")?;
            let wbody = &out[wpos..];
            let wend = wbody.find("Ok (())").unwrap_or(wbody.len());
            let mut write_order = vec![];
            let mut rest = &wbody[..wend];
            while let Some(p) = rest.find("& self .") {
                let tail = rest[p + 8..].trim_start();
                let name: String = tail.chars().take_while(|c| c.is_alphanumeric() || *c == '_' || *c == '#').collect();
                write_order.push(name.trim_start_matches("r#").to_string());
                rest = &rest[p + 8..];
            }
            // order of the struct literal fields in read_seq
            let rpos = out.find("fn read_seq").ok_or("no read_seq in expansion")?;
            let rbody = &out[rpos..wpos.max(rpos)];
            let rbody = if wpos > rpos { rbody } else { &out[rpos..] };
            let mut read_order = vec![];
            let mut rest = rbody;
            while let Some(p) = rest.find(":: read_value (reader)") {
                // the field name is the identifier before the preceding ':' of "name : AsnDef..Field.. :: read_value"
                let before = &rest[..p];
                if let Some(colon) = before.rfind(" : AsnDef") {
                    let name: String = before[..colon].chars().rev().take_while(|c| c.is_alphanumeric() || *c == '_' || *c == '#').collect::<String>().chars().rev().collect();
                    read_order.push(name.trim_start_matches("r#").to_string());
                }
                rest = &rest[p + 10..];
            }
            // TAG constant of every field
            let mut field_tags = vec![];
            for f in &field_names {
                let key = format!("for ___asn1rs_TxField{}Constraint {{ const TAG", camel(f));
                if let Some(p) = out.find(&key) {
                    let tail = &out[p..];
                    let eq = tail.find('=').unwrap_or(0);
                    let semi = tail.find(';').unwrap_or(tail.len());
                    let t = tail[eq + 1..semi].replace(":: asn1rs :: model :: asn :: Tag ::", "").replace(' ', "");
                    field_tags.push((f.clone(), t));
                } else {
                    field_tags.push((f.clone(), "<no TAG constant found>".into()));
                }
            }
            return Ok(Expanded { write_order, read_order, field_tags });
        }
    }
    Err("generated code has no struct Tx".into())
}

fn tag_str(t: &vcore::schema::Tag) -> String {
    use vcore::schema::TagClass::*;
    match t.class {
        Universal => format!("Universal({})", t.num),
        Application => format!("Application({})", t.num),
        Context => format!("ContextSpecific({})", t.num),
        Private => format!("Private({})", t.num),
    }
}

fn check_expand(c: &ExpCase) -> Vec<Failure> {
    let (m, ty) = build(c);
    let text = m.asn();
    let case = json!({"kind": "c16", "level": "expand", "set": c.set, "ord": c.ord, "marker": c.marker, "asn": ty.asn()});
    let mk = |class: &str, exp: String, obs: String| Failure { class: format!("c16.expand.{}.{class}", if c.set { "set" } else { "sequence" }), case: case.clone(), expected: exp, observed: obs };
    let (comps, ext_after) = match &ty {
        Ty::Seq { comps, ext_after, .. } => (comps, ext_after),
        _ => unreachable!(),
    };
    let exp = match catch(|| expand_type(&text)) {
        Err(p) => return vec![mk("front-end-panic", "expansion".into(), format!("panic: {p}"))],
        Ok(Err(e)) => return vec![mk("expansion-failed", "expansion".into(), e)],
        Ok(Ok(x)) => x,
    };
    let mut out = vec![];
    let nroot = ext_after.unwrap_or(comps.len());
    let root: Vec<usize> = (0..nroot).collect();
    let mut order = refper::root_order(&m, c.set, comps, &root);
    order.extend(nroot..comps.len());
    let want: Vec<String> = order.iter().map(|i| comps[*i].name.clone()).collect();
    let involves_choice_ref = comps.iter().any(|x| x.name == "rc");
    let involves_set_ref = comps.iter().any(|x| x.name == "rt");
    let sfx = if involves_choice_ref { ".with-untagged-choice-reference" } else if involves_set_ref { ".with-untagged-set-reference" } else { "" };
    if exp.write_order != want {
        out.push(mk(&format!("write-order{sfx}"), want.join(","), exp.write_order.join(",")));
    }
    if exp.read_order != want {
        out.push(mk(&format!("read-order{sfx}"), want.join(","), exp.read_order.join(",")));
    }
    let tags = refper::comp_tags(&m, comps);
    for (i, cmp) in comps.iter().enumerate() {
        let got = exp.field_tags.iter().find(|(f, _)| *f == cmp.name).map(|x| x.1.clone()).unwrap_or_default();
        if got != tag_str(&tags[i]) {
            let which = if cmp.name == "rc" { "untagged-choice-reference" } else if cmp.name == "rt" { "untagged-set-reference" } else if cmp.tag.is_some() { "explicit" } else if comps.iter().all(|x| x.tag.is_none()) { "automatic" } else { "own-type-tag" };
            out.push(mk(&format!("field-tag.{which}"), format!("{}: {}", cmp.name, tag_str(&tags[i])), format!("{}: {got}", cmp.name)));
        }
    }
    out
}

fn expand_space(thorough: bool) -> Vec<ExpCase> {
    let k = if thorough { 5 } else { 3 };
    let mut out = vec![];
    for ord in orderings(pool().len(), k) {
        for set in [true, false] {
            out.push(ExpCase { set, ord: ord.clone(), marker: None });
            for m in 1..=ord.len() {
                out.push(ExpCase { set, ord: ord.clone(), marker: Some(m) });
            }
        }
    }
    out
}

pub fn run(args: &Args) -> ! {
    reference_selfcheck();
    let mut report = Report::new(args, "model_checking");
    let ctx = Ctx::new(args.tier);
    // (a) expand level
    let space = expand_space(ctx.thorough);
    let fails: Vec<Vec<Failure>> = space.par_iter().map(check_expand).collect();
    let mut agg = Agg::new();
    for fs in fails {
        for f in fs {
            let e = agg.fails.entry(f.class.clone()).or_insert((0, f));
            e.0 += 1;
        }
    }
    // (b) wire level on the compiled permutations: bits vs refper for every presence pattern
    let mut wire_types = 0u64;
    for e in ctx.reg.iter().filter(|e| ctx.group_of(e) == "c16" && (ctx.thorough || ctx.zoo[e.module_index].quick)) {
        if !e.def.starts_with("Tt") && !e.def.starts_with("Ts") || e.def == "Tsq" || e.def == "Tst" {
            continue;
        }
        wire_types += 1;
        let b = Budget { max_size: 8, nested_leaf: 2, product_cap: 64, ext_out: false, large_sizes: &[] };
        let m = ctx.module_of(e);
        for v in values::values(m, &ctx.def_of(e).ty, &b) {
            check_c02_case(&ctx, e, &v, &mut agg);
        }
    }
    for (k, (n, f)) in std::mem::take(&mut agg.fails) {
        report.merge(k, n, f);
    }
    let wire_cases = agg.counters.get("evaluations").copied().unwrap_or(0);
    if wire_cases == 0 || space.is_empty() {
        machinery_error("C16: vacuous run");
    }
    let mut cov = Map::new();
    cov.insert("exhaustive".into(), json!(true));
    cov.insert("evaluations".into(), json!(space.len() as u64 + wire_cases));
    cov.insert("distinct_nontrivial".into(), json!(space.iter().filter(|c| c.ord.len() >= 2).count() as u64 + agg.counters.get("nontrivial").copied().unwrap_or(0)));
    cov.insert("states".into(), json!(space.len()));
    cov.insert("transitions".into(), json!(space.len() as u64 + wire_cases));
    cov.insert("traces_validated_against_impl".into(), json!(wire_cases));
    cov.insert("expand_level".into(), json!({"definitions_expanded": space.len(), "max_components": if ctx.thorough { 5 } else { 3 }, "pool": pool().iter().map(|c| format!("{} {}{}", c.name, c.tag.map(|t| t.asn() + " ").unwrap_or_default(), c.ty.asn())).collect::<Vec<_>>()}));
    cov.insert("wire_level".into(), json!({"compiled_types": wire_types, "type_value_cases": wire_cases}));
    cov.insert("rule".into(), json!("(a) every permutation of every <=k subset of the 16-component pool x marker position {none, after i} (additions in ascending tag order), as SET and as SEQUENCE, is printed, run through the real front end + generator + attribute re-parser + expand(); the order of write_value calls and of read_seq's struct-literal fields must equal the X.680 8.6 canonical order of the ROOT components followed by the additions (SEQUENCE: textual), and every field's TAG constant the X.680 tag (explicit, referenced type's, or automatic only if no component is tagged). (b) the compiled permutations: bits == refper for every presence pattern. non-trivial = >= 2 components (order can matter)"));
    cov.insert("samples".into(), json!([{"set": true, "components": "c3 [3], x [UNIVERSAL 30], rs Tsq", "expected_order": "x, rs, c3"}, space.get(1234.min(space.len() - 1)).map(|c| json!({"set": c.set, "ord": c.ord, "marker": c.marker, "asn": build(c).1.asn()}))]));
    report.finish(cov, vec!["expected order/tags come from vcore::refper::{comp_tags, root_order} (X.680 8.6, 25.x, 29.x), validated against the repository's playground SET vectors".into()])
}

pub fn replay(ctx: &Ctx, c: &J, agg: &mut Agg) {
    if c["level"] == "expand" {
        let case = ExpCase { set: c["set"].as_bool().unwrap(), ord: c["ord"].as_array().unwrap().iter().map(|x| x.as_u64().unwrap() as usize).collect(), marker: c["marker"].as_u64().map(|x| x as usize) };
        for f in check_expand(&case) {
            let e = agg.fails.entry(f.class.clone()).or_insert((0, f));
            e.0 += 1;
        }
    }
    let _ = ctx;
}

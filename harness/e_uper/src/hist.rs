//! C01, alphabet B: explicit-state BFS over histories of messages written back-to-back into ONE
//! real writer and read back in order from ONE real reader.
//! state = the writer's bits (exact dedup: the writer has no other state between top-level writes);
//! model = concatenation of the single-message encodings obtained on fresh writers.

use crate::*;
use std::collections::{BTreeSet, HashMap};

pub struct HistResult {
    pub fails: BTreeMap<String, (u64, Failure)>,
    pub states: u64,
    pub transitions: u64,
    pub leaf_traces: u64,
    pub depth: usize,
    pub alphabet: usize,
    pub residues: usize,
    pub samples: Vec<J>,
}

pub fn alphabet(ctx: &Ctx) -> Vec<(&Entry, Value)> {
    let msgs: Vec<(&str, Value)> = vec![
        ("Tbool", Value::Bool(true)),
        ("Tint3", Value::Int(5)),
        ("Tenumx", Value::Enum(2)),
        ("Tbits13", Value::Bits((0..13).map(|i| i % 3 == 0).collect())),
        ("Tnull", Value::Null),
        ("Tintun", Value::Int(3)),
        ("Tia5f5", Value::Str("hello".into())),
        ("Tutf8", Value::Str("é".into())),
        ("Tsobool", Value::List(vec![Value::Bool(true), Value::Bool(false), Value::Bool(true)])),
        ("Tseqx", Value::Seq(vec![Some(Value::Int(6)), Some(Value::Int(200))])),
        ("Tchx", Value::Choice(1, Box::new(Value::Int(77)))),
        ("Toct", Value::Bytes((0..17).map(|i| (i * 37 + 11) as u8).collect())),
    ];
    msgs.into_iter().map(|(n, v)| (ctx.find("hist", n).expect("hist type"), v)).collect()
}

fn write_history(al: &[(&Entry, Value)], h: &[u8]) -> Result<Vec<bool>, String> {
    match catch(|| {
        let mut w = UperWriter::default();
        for i in h {
            let (e, v) = &al[*i as usize];
            e.ops.uper_write(&mut w, v).map_err(|e| e.1)?;
        }
        let n = w.bit_len();
        let c = w.byte_content().to_vec();
        if c.len() != (n + 7) / 8 || vcore::refbits::unpack(&c)[n..].iter().any(|b| *b) {
            return Err("byte_content() is not ceil(bit_len/8) zero padded bytes".to_string());
        }
        Ok(unpack_n(&c, n))
    }) {
        Ok(r) => r,
        Err(p) => Err(format!("panic: {p}")),
    }
}

fn read_history(al: &[(&Entry, Value)], h: &[u8], bits: &[bool]) -> Result<(), String> {
    let bytes = pack(bits);
    match catch(|| {
        let mut r = UperReader::from((&bytes[..], bits.len()));
        for (k, i) in h.iter().enumerate() {
            let (e, v) = &al[*i as usize];
            let got = e.ops.uper_read(&mut r).map_err(|e| format!("message {k} ({}): Err({})", e.0, e.1))?;
            if got != v.normalize() {
                return Err(format!("message {k} ({}): read {} instead of {}", al[*i as usize].0.def, got.short(), v.short()));
            }
        }
        if r.bits_remaining() != 0 {
            return Err(format!("{} bits remaining after the last message", r.bits_remaining()));
        }
        Ok(())
    }) {
        Ok(r) => r,
        Err(p) => Err(format!("panic: {p}")),
    }
}

fn case(h: &[u8], al: &[(&Entry, Value)]) -> J {
    json!({"kind": "c01-history", "history": h, "messages": h.iter().map(|i| al[*i as usize].0.def).collect::<Vec<_>>()})
}

pub fn explore(ctx: &Ctx, depth: usize) -> HistResult {
    let al = alphabet(ctx);
    let mut res = HistResult { fails: BTreeMap::new(), states: 1, transitions: 0, leaf_traces: 0, depth, alphabet: al.len(), residues: 0, samples: vec![] };
    let mut fail = |res: &mut HistResult, class: &str, c: J, exp: String, obs: String| {
        let e = res.fails.entry(class.to_string()).or_insert((0, Failure { class: class.to_string(), case: c, expected: exp, observed: obs }));
        e.0 += 1;
    };
    // single message encodings on fresh writers = the model's building blocks
    let mut single: Vec<Vec<bool>> = vec![];
    let mut residues = BTreeSet::new();
    for i in 0..al.len() {
        match write_history(&al, &[i as u8]) {
            Ok(b) => {
                residues.insert(b.len() % 8);
                single.push(b)
            }
            Err(e) => {
                fail(&mut res, "history.single-message-encode", case(&[i as u8], &al), "Ok".into(), e);
                single.push(vec![]);
            }
        }
    }
    res.residues = residues.len();
    let mut seen: HashMap<Vec<bool>, ()> = HashMap::new();
    seen.insert(vec![], ());
    let mut frontier: Vec<(Vec<u8>, Vec<bool>)> = vec![(vec![], vec![])];
    for d in 1..=depth {
        let mut next = vec![];
        for (h, model_bits) in &frontier {
            for i in 0..al.len() {
                res.transitions += 1;
                let mut h2 = h.clone();
                h2.push(i as u8);
                let mut model = model_bits.clone();
                model.extend_from_slice(&single[i]);
                match write_history(&al, &h2) {
                    Err(e) => fail(&mut res, "history.write", case(&h2, &al), "Ok".into(), e),
                    Ok(bits) => {
                        if bits != model {
                            fail(&mut res, "history.writer-content-differs-from-concatenation", case(&h2, &al), show_bits(&model), show_bits(&bits));
                            continue;
                        }
                        // every state (not only leaves) is read back: the reader must walk the same history
                        res.leaf_traces += 1;
                        if let Err(e) = read_history(&al, &h2, &bits) {
                            fail(&mut res, "history.read-back", case(&h2, &al), "all messages equal, 0 bits remaining".into(), e);
                        }
                        if seen.insert(bits.clone(), ()).is_none() {
                            if res.samples.len() < 2 && d == depth {
                                res.samples.push(json!({"history": h2.iter().map(|i| al[*i as usize].0.def).collect::<Vec<_>>(), "bits": bits.len()}));
                            }
                            if d < depth {
                                next.push((h2, bits));
                            }
                        }
                    }
                }
            }
        }
        frontier = next;
    }
    res.states = seen.len() as u64;
    res
}

pub fn replay(ctx: &Ctx, c: &J, agg: &mut Agg) {
    let al = alphabet(ctx);
    let h: Vec<u8> = c["history"].as_array().unwrap().iter().map(|x| x.as_u64().unwrap() as u8).collect();
    let mut model = vec![];
    for i in &h {
        model.extend(write_history(&al, &[*i]).unwrap_or_default());
    }
    match write_history(&al, &h) {
        Err(e) => agg.fail("history.write".into(), c.clone(), "Ok".into(), e),
        Ok(bits) => {
            if bits != model {
                agg.fail("history.writer-content-differs-from-concatenation".into(), c.clone(), show_bits(&model), show_bits(&bits));
            } else if let Err(e) = read_history(&al, &h, &bits) {
                agg.fail("history.read-back".into(), c.clone(), "all messages equal, 0 bits remaining".into(), e);
            }
        }
    }
}

//! C01, C02, C03, C06 (and, in sibling modules, C05, C16) on the compiled zoo: every
//! (schema, value[, alignment]) of the enumerated space is executed once on the real generated
//! types and compared with `refper` (vcore), the independent X.691 reference.

use serde_json::{json, Map, Value as J};
use std::collections::BTreeMap;
use vcore::refbits::{bits_to_string, hex, pack, unpack_n};
use vcore::refper::{self, Quirks};
use vcore::report::*;
use vcore::schema::*;
use vcore::values::{self, Budget};
use vcore::zoo_def::{self, ZooModule};
use zoo::{Entry, TypeOps};

mod c03;
mod c05;
mod c06;
mod c16;
mod hist;

pub use asn1rs::descriptor::{boolean, Reader, Writer};
pub use asn1rs::rw::{Bits, UperReader, UperWriter};

pub struct Ctx {
    pub zoo: Vec<ZooModule>,
    pub reg: Vec<Entry>,
    pub thorough: bool,
}

impl Ctx {
    pub fn new(tier: Tier) -> Self {
        let zoo = zoo_def::zoo();
        let reg = zoo::registry();
        Ctx { zoo, reg, thorough: tier.is_thorough() }
    }
    pub fn module_of(&self, e: &Entry) -> &Module {
        &self.zoo[e.module_index].module
    }
    pub fn def_of(&self, e: &Entry) -> &Def {
        self.module_of(e).find(e.def).expect("def")
    }
    pub fn group_of(&self, e: &Entry) -> &'static str {
        self.zoo[e.module_index].group
    }
    pub fn find(&self, module_id: &str, def: &str) -> Option<&Entry> {
        self.reg.iter().find(|e| e.module_id == module_id && e.def == def)
    }
}

pub fn type_kind(m: &Module, ty: &Ty) -> String {
    match m.resolve(ty) {
        Ty::Bool => "boolean".into(),
        Ty::Null => "null".into(),
        Ty::Int { .. } => "integer".into(),
        Ty::Enum { .. } => "enumerated".into(),
        Ty::BitStr { .. } => "bitstring".into(),
        Ty::OctStr { .. } => "octetstring".into(),
        Ty::Str { cs, .. } => format!("{:?}string", cs).to_lowercase(),
        Ty::Seq { set: false, .. } => "sequence".into(),
        Ty::Seq { set: true, .. } => "set".into(),
        Ty::SeqOf { set: false, .. } => "sequenceof".into(),
        Ty::SeqOf { set: true, .. } => "setof".into(),
        Ty::Choice { .. } => "choice".into(),
        Ty::Ref(_) => unreachable!(),
    }
}

/// Encode `v` with the real writer after `align` filler bits (pattern 1010..). Returns all bits.
pub fn impl_encode(ops: &dyn TypeOps, v: &Value, align: usize) -> Result<Result<Vec<bool>, zoo::PerErr>, String> {
    catch(|| {
        let mut w = UperWriter::default();
        for i in 0..align {
            w.write_boolean::<boolean::NoConstraint>(i % 2 == 0).map_err(|e| ("prefix".to_string(), format!("{:?}", e.kind())))?;
        }
        ops.uper_write(&mut w, v)?;
        let n = w.bit_len();
        let content = w.byte_content().to_vec();
        if content.len() != (n + 7) / 8 {
            return Err(("harness-observed".to_string(), format!("byte_content().len()={} but bit_len()={n}", content.len())));
        }
        let bits = unpack_n(&content, n);
        // padding must be zero
        let padded = vcore::refbits::unpack(&content);
        if padded[n..].iter().any(|b| *b) {
            return Err(("harness-observed".to_string(), "non-zero padding bits in byte_content()".to_string()));
        }
        Ok(bits)
    })
}

#[derive(Debug, Clone, PartialEq)]
pub struct Decoded {
    pub value: Value,
    pub remaining: usize,
}

/// Decode with the real reader from `bits` (declared length = bits.len()), skipping `align` bits.
pub fn impl_decode(ops: &dyn TypeOps, bits: &[bool], align: usize) -> Result<Result<Decoded, zoo::PerErr>, String> {
    let bytes = pack(bits);
    catch(|| {
        let mut r = UperReader::from((&bytes[..], bits.len()));
        for i in 0..align {
            let b = r.read_boolean::<boolean::NoConstraint>().map_err(|e| ("prefix".to_string(), format!("{:?}", e.kind())))?;
            if b != (i % 2 == 0) {
                return Err(("harness-observed".to_string(), format!("filler bit {i} was changed by the writer")));
            }
        }
        let value = ops.uper_read(&mut r)?;
        Ok(Decoded { value, remaining: r.bits_remaining() })
    })
}

pub fn show_bits(b: &[bool]) -> String {
    if b.len() > 128 {
        format!("{} bits, head {}…", b.len(), hex(&pack(&b[..128])))
    } else {
        format!("{} bits [{}]", b.len(), bits_to_string(b))
    }
}

pub fn case_json(e: &Entry, v: &Value, align: usize, what: &str) -> J {
    // large values are not embedded literally; they are re-derivable from (module, def, index)
    let vj = if v.render().len() > 4000 { json!({"too_large_to_embed": v.short()}) } else { v.to_json() };
    json!({"kind": what, "module": e.module_id, "def": e.def, "value": vj, "align": align})
}

pub struct Agg {
    pub fails: BTreeMap<String, (u64, Failure)>,
    pub counters: BTreeMap<String, u64>,
    pub samples: Vec<J>,
}

impl Agg {
    pub fn new() -> Self {
        Agg { fails: BTreeMap::new(), counters: BTreeMap::new(), samples: vec![] }
    }
    pub fn fail(&mut self, class: String, case: J, expected: String, observed: String) {
        let e = self.fails.entry(class.clone()).or_insert((0, Failure { class, case, expected, observed }));
        e.0 += 1;
    }
    pub fn count(&mut self, k: &str, n: u64) {
        *self.counters.entry(k.to_string()).or_insert(0) += n;
    }
    pub fn to_json(&self) -> J {
        json!({"failures": failures_to_json(&self.fails), "counters": self.counters, "samples": self.samples})
    }
    pub fn merge_json(&mut self, v: &J) {
        failures_merge_json(&mut self.fails, &v["failures"]);
        if let Some(c) = v["counters"].as_object() {
            for (k, n) in c {
                self.count(k, n.as_u64().unwrap_or(0));
            }
        }
        if let Some(s) = v["samples"].as_array() {
            for x in s {
                if self.samples.len() < 8 {
                    self.samples.push(x.clone());
                }
            }
        }
    }
    pub fn clear(&mut self) {
        self.fails.clear();
        self.counters.clear();
        self.samples.clear();
    }
}

/// Is the abstract value representable in the generated Rust type (lossless there and back)?
pub fn representable(ops: &dyn TypeOps, v: &Value) -> bool {
    matches!(catch(|| ops.reflect(v)), Ok(r) if r == v.normalize())
}

pub fn budget(thorough: bool) -> Budget {
    if thorough { Budget::thorough() } else { Budget::quick().with_max_size(17000) }
}

pub fn values_of(ctx: &Ctx, e: &Entry) -> Vec<Value> {
    let m = ctx.module_of(e);
    let d = ctx.def_of(e);
    values::values(m, &d.ty, &budget(ctx.thorough))
}

// -------------------------------------------------------------------------------------------------
// C02: bit-exactness against refper, both directions
// -------------------------------------------------------------------------------------------------

/// Restrict a set of *possibly* applicable quirks to those recorded as OPEN findings for `property`.
/// Used only where a class is built from applicability (e.g. an encoder Err), never where the
/// observed bits were reproduced exactly by a quirk model (there a repaired quirk that reappears
/// must be reported).
pub fn open_only(q: &Quirks, property: &str) -> Quirks {
    let known = load_known_findings();
    q.iter().copied().filter(|x| known.iter().any(|k| k.applies_to(property) && k.status == "open" && k.quirk == x.name())).collect()
}

pub fn quirk_class(q: &Quirks) -> String {
    format!("quirk.{}", q.iter().map(|x| x.name()).collect::<Vec<_>>().join("+"))
}

pub fn check_c02_case(ctx: &Ctx, e: &Entry, v: &Value, agg: &mut Agg) {
    let m = ctx.module_of(e);
    let d = ctx.def_of(e);
    let kind = type_kind(m, &d.ty);
    let strict = match refper::encode_top(m, e.def, v) {
        Ok(s) => s,
        Err(_) => {
            agg.count("skipped_value_outside_type", 1);
            return;
        }
    };
    if !representable(e.ops, v) {
        agg.count("skipped_unrepresentable_in_generated_type", 1);
        return;
    }
    agg.count("evaluations", 1);
    if !strict.bits.is_empty() {
        agg.count("nontrivial", 1);
    }
    if agg.samples.len() < 2 && strict.bits.len() > 8 && strict.bits.len() < 200 {
        agg.samples.push(json!({"type": format!("{}::{} ::= {}", e.module_id, e.def, vcore::report::truncate(&d.ty.asn(), 120)), "value": v.short(), "x691_bits": bits_to_string(&strict.bits)}));
    }
    let mut applicable = Quirks::new();
    refper::applicable_quirks(m, &d.ty, v, &mut applicable);
    let case = || case_json(e, v, 0, "c02");
    let mut explained_by_quirk = false;
    let mut decode_although_refused = false;
    match impl_encode(e.ops, v, 0) {
        Err(p) => agg.fail(format!("encode-panic.{kind}"), case(), show_bits(&strict.bits), format!("panic: {p}")),
        Ok(Err((k, detail))) => {
            if k == "ExtensionFieldsInconsistent" {
                agg.fail("documented.extension-fields-inconsistent".into(), case(), show_bits(&strict.bits), format!("Err({detail})"));
                // the WRITER refuses this presence pattern; other encoders produce it and the reader must decode it
                // (unless a recorded quirk applies to this value: then the reference bits are not what this reader expects)
                if open_only(&applicable, "C02").is_empty() {
                    decode_although_refused = true;
                }
            } else if !open_only(&applicable, "C02").is_empty() {
                agg.fail(format!("{}.encode-err", quirk_class(&open_only(&applicable, "C02"))), case(), show_bits(&strict.bits), format!("Err({detail})"));
            } else {
                agg.fail(format!("encode-err.{kind}"), case(), show_bits(&strict.bits), format!("Err({detail})"));
            }
            if !decode_although_refused {
                explained_by_quirk = true; // nothing to read back
            }
        }
        Ok(Ok(bits)) => {
            if bits != strict.bits {
                match refper::explain_with_quirks(m, e.def, v, &bits, &applicable) {
                    Some(q) => {
                        explained_by_quirk = true;
                        agg.fail(quirk_class(&q), case(), show_bits(&strict.bits), show_bits(&bits));
                    }
                    None => {
                        let dpos = bits.iter().zip(strict.bits.iter()).position(|(a, b)| a != b).unwrap_or(bits.len().min(strict.bits.len()));
                        agg.fail(
                            format!("bits.{kind}"),
                            case(),
                            format!("{} (X.691 field at the first difference: {})", show_bits(&strict.bits), strict.label_at(dpos)),
                            format!("{} (first difference at bit {dpos})", show_bits(&bits)),
                        );
                    }
                }
            }
        }
    }
    // the reader must decode the canonical encoding (matters exactly when the writer is wrong symmetrically)
    if !explained_by_quirk {
        match impl_decode(e.ops, &strict.bits, 0) {
            Err(p) => agg.fail(format!("read-reference-panic.{kind}"), case(), v.short(), format!("panic: {p}")),
            Ok(Err((_, detail))) => {
                // the one recorded reader-side defect
                let rq: Quirks = applicable.iter().copied().filter(|q| matches!(q, refper::Quirk::FragmentedOpenTypeNotReadable)).collect();
                let rq = open_only(&rq, "C02");
                if rq.is_empty() {
                    agg.fail(format!("read-reference-err.{kind}"), case(), v.short(), format!("Err({detail})"))
                } else {
                    agg.fail(format!("{}.read-reference-err", quirk_class(&rq)), case(), v.short(), format!("Err({detail})"))
                }
            }
            Ok(Ok(dec)) => {
                if dec.value != v.normalize() {
                    agg.fail(format!("read-reference-value.{kind}"), case(), v.short(), dec.value.short());
                } else if dec.remaining != 0 {
                    agg.fail(format!("read-reference-remaining.{kind}"), case(), "0 bits remaining".into(), format!("{} bits remaining", dec.remaining));
                }
            }
        }
    }
}

// -------------------------------------------------------------------------------------------------
// C01: round trip with exact consumption at every start alignment
// -------------------------------------------------------------------------------------------------

pub fn check_c01_case(ctx: &Ctx, e: &Entry, v: &Value, aligns: &[usize], agg: &mut Agg) {
    let m = ctx.module_of(e);
    let d = ctx.def_of(e);
    let kind = type_kind(m, &d.ty);
    if !representable(e.ops, v) {
        agg.count("skipped_unrepresentable_in_generated_type", 1);
        return;
    }
    let mut applicable = Quirks::new();
    refper::applicable_quirks(m, &d.ty, v, &mut applicable);
    // the only recorded defects that break the round trip itself
    let known_rt: Vec<&str> = applicable
        .iter()
        .filter(|q| matches!(q, refper::Quirk::NoListFragmentation | refper::Quirk::FragmentedOpenTypeNotReadable))
        .map(|q| q.name())
        .collect();
    let cls = |kind_of_failure: &str| {
        if known_rt.is_empty() { format!("{kind_of_failure}.{kind}") } else { format!("quirk.{}.{kind_of_failure}", known_rt.join("+")) }
    };
    let mut first_bits: Option<Vec<bool>> = None;
    for &p in aligns {
        agg.count("evaluations", 1);
        let case = || case_json(e, v, p, "c01");
        match impl_encode(e.ops, v, p) {
            Err(pn) => agg.fail(cls("encode-panic"), case(), "Ok or Err".into(), format!("panic: {pn}")),
            Ok(Err((k, detail))) => {
                if k == "harness-observed" {
                    agg.fail(cls("writer-buffer-invariant"), case(), "byte_content() == ceil(bit_len/8) bytes, zero padded".into(), detail);
                }
                agg.count("encode_err", 1);
            }
            Ok(Ok(bits)) => {
                if bits.len() > p {
                    agg.count("nontrivial", 1);
                }
                // the encoding must not depend on the start alignment
                match &first_bits {
                    None => first_bits = Some(bits[p..].to_vec()),
                    Some(fb) => {
                        if fb[..] != bits[p..] {
                            agg.fail(cls("alignment-dependent-encoding"), case(), show_bits(fb), show_bits(&bits[p..]));
                        }
                    }
                }
                match impl_decode(e.ops, &bits, p) {
                    Err(pn) => agg.fail(cls("decode-panic"), case(), v.short(), format!("panic: {pn}")),
                    Ok(Err((k, detail))) => {
                        if k == "harness-observed" {
                            agg.fail(cls("writer-changed-earlier-bits"), case(), "filler bits intact".into(), detail);
                        } else {
                            agg.fail(cls("decode-err"), case(), v.short(), format!("Err({detail}) from {}", show_bits(&bits)));
                        }
                    }
                    Ok(Ok(dec)) => {
                        if dec.value != v.normalize() {
                            agg.fail(cls("roundtrip-value"), case(), v.short(), format!("{} from {}", dec.value.short(), show_bits(&bits)));
                        } else if dec.remaining != 0 {
                            agg.fail(cls("roundtrip-remaining"), case(), "0 bits remaining".into(), format!("{} bits remaining", dec.remaining));
                        }
                    }
                }
            }
        }
    }
}

// -------------------------------------------------------------------------------------------------
// driver: sweep over registry entries in worker processes
// -------------------------------------------------------------------------------------------------

pub fn entry_selected(ctx: &Ctx, e: &Entry, prop: &str) -> bool {
    let g = ctx.group_of(e);
    let quick_ok = ctx.thorough || ctx.zoo[e.module_index].quick;
    if !quick_ok {
        return false;
    }
    match prop {
        "C01" | "C02" | "C06" => matches!(g, "leaf" | "cont" | "hist" | "shape" | "c16"),
        "C03" => g == "shape",
        _ => false,
    }
}

fn run_entry(ctx: &Ctx, prop: &str, e: &Entry, agg: &mut Agg) {
    match prop {
        "C02" => {
            // the C03 shapes and C16 permutations have dedicated value enumerators; here: generic domain
            let vals = if ctx.group_of(e) == "shape" { c03::presence_values(ctx, e) } else { values_of(ctx, e) };
            for v in &vals {
                check_c02_case(ctx, e, v, agg);
            }
        }
        "C01" => {
            let vals = if ctx.group_of(e) == "shape" { c03::presence_values(ctx, e) } else { values_of(ctx, e) };
            for v in &vals {
                let big = v.render().len() > 2000 || matches!(v, Value::List(l) if l.len() > 2000);
                let aligns: Vec<usize> = if big { vec![0, 3] } else { (0..8).collect() };
                check_c01_case(ctx, e, v, &aligns, agg);
            }
        }
        "C03" => c03::run_entry(ctx, e, agg),
        "C06" => c06::run_entry(ctx, e, agg),
        _ => unreachable!(),
    }
}

pub fn reference_selfcheck() {
    let bad = vcore::refper_vectors::selfcheck();
    if !bad.is_empty() {
        machinery_error(&format!("refper does not reproduce the repository's externally produced vectors: {}", bad.join("; ")));
    }
}

fn run_sweep_property(args: &Args, prop: &'static str) -> ! {
    if vcore::sweep::child_ctx().is_none() {
        reference_selfcheck();
    }
    let ctx = Ctx::new(args.tier);
    let selected: Vec<usize> = (0..ctx.reg.len()).filter(|i| entry_selected(&ctx, &ctx.reg[*i], prop)).collect();
    if let Some(cctx) = vcore::sweep::child_ctx() {
        vcore::sweep::limit_address_space(8 << 30);
        let agg = std::cell::RefCell::new(Agg::new());
        vcore::sweep::child_loop(
            &cctx,
            selected.len(),
            4,
            |idx| {
                let e = &ctx.reg[selected[idx]];
                let mut a = agg.borrow_mut();
                a.count("types", 1);
                run_entry(&ctx, prop, e, &mut a);
            },
            || {
                let mut a = agg.borrow_mut();
                let v = a.to_json();
                a.clear();
                v
            },
        );
    }
    let level = match prop {
        "C06" => "exploration",
        _ => "model_checking",
    };
    let mut report = Report::new(args, level);
    let res = vcore::sweep::sweep(prop, vcore::shard::default_shards(), std::time::Duration::from_secs(120), &[]);
    let mut agg = Agg::new();
    for c in &res.chunks {
        agg.merge_json(c);
    }
    for cr in &res.crashes {
        let e = &ctx.reg[selected[cr.index]];
        agg.fail(
            format!("process-{}.{}", cr.what.split('(').next().unwrap_or("abort"), type_kind(ctx.module_of(e), &ctx.def_of(e).ty)),
            json!({"kind": "type-sweep", "property": prop, "module": e.module_id, "def": e.def}),
            "every case returns".into(),
            format!("worker process died while exploring this type: {}", cr.what),
        );
    }
    // C01 additionally explores operation histories in one writer / one reader (E-bfs)
    let mut cov = Map::new();
    if prop == "C01" {
        let h = hist::explore(&ctx, if ctx.thorough { 4 } else { 3 });
        for (k, (n, f)) in h.fails {
            let en = agg.fails.entry(k).or_insert((0, f));
            en.0 += n;
        }
        cov.insert("states".into(), json!(h.states));
        cov.insert("transitions".into(), json!(h.transitions));
        cov.insert("traces_validated_against_impl".into(), json!(h.leaf_traces));
        cov.insert("history_bfs".into(), json!({"alphabet_messages": h.alphabet, "depth": h.depth, "states": h.states, "transitions": h.transitions, "leaf_histories_read_back": h.leaf_traces, "distinct_bit_lengths_mod_8": h.residues}));
        agg.samples.extend(h.samples);
    }
    for (k, (n, f)) in std::mem::take(&mut agg.fails) {
        report.merge(k, n, f);
    }
    let evals = agg.counters.get("evaluations").copied().unwrap_or(0);
    if evals == 0 {
        machinery_error("no case was evaluated (vacuous run)");
    }
    cov.insert("exhaustive".into(), json!(true));
    cov.insert("evaluations".into(), json!(evals));
    cov.insert("distinct_nontrivial".into(), json!(agg.counters.get("nontrivial").copied().unwrap_or(0)));
    cov.insert("types_explored".into(), json!(agg.counters.get("types").copied().unwrap_or(0)));
    cov.insert("counters".into(), json!(agg.counters));
    cov.insert("worker_process_crashes".into(), json!(res.crashes.len()));
    cov.insert("reference_selfcheck_vectors_reproduced".into(), json!(vcore::refper_vectors::vectors().len()));
    cov.insert("zoo_modules_rejected_by_front_end".into(), json!(zoo::rejected().iter().map(|s| serde_json::from_str::<J>(s).unwrap_or(J::Null)).collect::<Vec<_>>()));
    cov.insert("rule".into(), json!(match prop {
        "C01" => "every (zoo type, value of vcore::values domain representable in the generated Rust type, start alignment 0..7) is written with the real generated encoder into a writer pre-loaded with the alignment bits and read back: value equal, 0 bits remaining, filler bits intact, encoding independent of alignment; plus BFS over histories of messages in one writer/reader. non-trivial = encoding of >= 1 bit. distinctness: (type, value, alignment) triples are distinct by construction",
        "C02" => "every (zoo type, value) is encoded by the real generated encoder and by refper: bits equal, and the real reader decodes refper's bits to the value with 0 bits remaining; a difference is a KNOWN-FINDING only if refper with a minimal set of recorded quirk models reproduces the observed bits exactly. non-trivial = X.691 encoding of >= 1 bit",
        "C03" => "every SEQUENCE/SET shape (<= N components x {mandatory, OPTIONAL, DEFAULT} x marker position) x every presence pattern: bits vs refper (presence bits, extension bit), decoded absent/default semantics, and Err only as ExtensionFieldsInconsistent in the documented situation",
        _ => "every constrained zoo type x every just-outside / far-outside value and illegal character class: Err, or (extensible) Ok with round trip; never Ok with a different decoded value",
    }));
    cov.insert("samples".into(), J::Array(agg.samples.clone()));
    report.finish(cov, vec![
        "refper (vcore::refper) is the trusted X.691 reference; it must reproduce the repository's externally produced ('playground') vectors, checked by `cargo test -p e_uper` and at the start of C02 runs".into(),
        "value domains are boundary sets (vcore::values), not all values; sizes up to 17000 (quick) / 70000 (thorough)".into(),
    ])
}

fn replay(args: &Args, case: &J) -> ! {
    let ctx = Ctx::new(Tier::Thorough);
    let kind = case["kind"].as_str().unwrap_or("");
    let run = || -> Vec<String> {
        let mut agg = Agg::new();
        match kind {
            "c01" | "c02" | "c03" | "c06" => {
                let e = match ctx.find(case["module"].as_str().unwrap(), case["def"].as_str().unwrap()) {
                    Some(e) => e,
                    None => machinery_error("replay: type not in the compiled zoo (build with the thorough feature?)"),
                };
                if case["value"].get("too_large_to_embed").is_some() {
                    // re-run the whole type
                    run_entry(&ctx, &kind.to_uppercase(), e, &mut agg);
                } else {
                    let v = Value::from_json(&case["value"]);
                    let align = case["align"].as_u64().unwrap_or(0) as usize;
                    match kind {
                        "c01" => check_c01_case(&ctx, e, &v, &[align], &mut agg),
                        "c02" => check_c02_case(&ctx, e, &v, &mut agg),
                        "c03" => c03::check_case(&ctx, e, &v, &mut agg),
                        _ => c06::check_case(&ctx, e, &v, &mut agg),
                    }
                }
            }
            "c01-history" => hist::replay(&ctx, case, &mut agg),
            "c05" => c05::replay(&ctx, case, &mut agg),
            "c16" => c16::replay(&ctx, case, &mut agg),
            _ => machinery_error(&format!("unknown replay kind {kind}")),
        }
        agg.fails.iter().map(|(k, (_, f))| format!("FAIL {k} expected[{}] observed[{}]", f.expected, f.observed)).collect()
    };
    let a = run();
    if a != run() {
        machinery_error("replay is not deterministic");
    }
    let _ = args;
    if a.is_empty() {
        println!("ok");
        std::process::exit(0)
    }
    println!("{}", a.join("\n"));
    std::process::exit(1)
}

fn main() {
    let args = parse_args();
    install_quiet_panic_hook();
    if let Some(p) = &args.replay {
        replay(&args, &load_replay(p));
    }
    match args.property.as_str() {
        "C01" => run_sweep_property(&args, "C01"),
        "C02" => run_sweep_property(&args, "C02"),
        "C03" => run_sweep_property(&args, "C03"),
        "C06" => run_sweep_property(&args, "C06"),
        "C05" => c05::run(&args),
        "C16" => c16::run(&args),
        p => machinery_error(&format!("e_uper does not serve {p}")),
    }
}

pub mod refbits;
pub mod schema;
pub mod subject;
pub mod values;
pub mod zoo_c05;
pub mod zoo_c16;
pub mod zoo_def;

pub fn truncate(s: &str, n: usize) -> String {
    if s.chars().count() <= n {
        s.to_string()
    } else {
        let t: String = s.chars().take(n).collect();
        format!("{t}…")
    }
}

//! The boring bit-vector model: MSB-first packing, copy of `len` bits.

pub fn unpack(bytes: &[u8]) -> Vec<bool> {
    let mut v = Vec::with_capacity(bytes.len() * 8);
    for b in bytes {
        for i in 0..8 {
            v.push(b & (0x80 >> i) != 0);
        }
    }
    v
}

pub fn unpack_n(bytes: &[u8], n: usize) -> Vec<bool> {
    let mut v = unpack(bytes);
    v.truncate(n);
    v
}

/// Pack MSB-first, zero padded to whole bytes.
pub fn pack(bits: &[bool]) -> Vec<u8> {
    let mut out = vec![0u8; (bits.len() + 7) / 8];
    for (i, b) in bits.iter().enumerate() {
        if *b {
            out[i / 8] |= 0x80 >> (i % 8);
        }
    }
    out
}

/// Model of "copy len bits from src@off to dst@pos": None if either side is too short.
pub fn copy(src: &[bool], off: usize, dst: &[bool], pos: usize, len: usize) -> Option<Vec<bool>> {
    if off.checked_add(len)? > src.len() || pos.checked_add(len)? > dst.len() {
        return None;
    }
    let mut out = dst.to_vec();
    out[pos..pos + len].copy_from_slice(&src[off..off + len]);
    Some(out)
}

pub fn bits_to_string(bits: &[bool]) -> String {
    let mut s = String::with_capacity(bits.len() + bits.len() / 8);
    for (i, b) in bits.iter().enumerate() {
        if i > 0 && i % 8 == 0 {
            s.push(' ');
        }
        s.push(if *b { '1' } else { '0' });
    }
    s
}

pub fn hex(bytes: &[u8]) -> String {
    bytes.iter().map(|b| format!("{b:02x}")).collect::<Vec<_>>().join("")
}

pub fn unhex(s: &str) -> Vec<u8> {
    let s: Vec<u8> = s.bytes().filter(|c| c.is_ascii_hexdigit()).collect();
    s.chunks(2)
        .map(|c| u8::from_str_radix(std::str::from_utf8(c).unwrap(), 16).unwrap())
        .collect()
}

//! The harness-owned abstract schema and value model (DESIGN.md 3.3). The subject's own model
//! types are never used as ground truth.

use std::collections::BTreeMap;

#[derive(Clone, Copy, Debug, PartialEq, Eq, Hash, PartialOrd, Ord)]
pub enum TagClass {
    Universal,
    Application,
    Context,
    Private,
}

#[derive(Clone, Copy, Debug, PartialEq, Eq, Hash, PartialOrd, Ord)]
pub struct Tag {
    pub class: TagClass,
    pub num: u64,
}

impl Tag {
    pub const fn u(n: u64) -> Tag {
        Tag { class: TagClass::Universal, num: n }
    }
    pub const fn a(n: u64) -> Tag {
        Tag { class: TagClass::Application, num: n }
    }
    pub const fn c(n: u64) -> Tag {
        Tag { class: TagClass::Context, num: n }
    }
    pub const fn p(n: u64) -> Tag {
        Tag { class: TagClass::Private, num: n }
    }
    pub fn asn(&self) -> String {
        match self.class {
            TagClass::Universal => format!("[UNIVERSAL {}]", self.num),
            TagClass::Application => format!("[APPLICATION {}]", self.num),
            TagClass::Context => format!("[{}]", self.num),
            TagClass::Private => format!("[PRIVATE {}]", self.num),
        }
    }
}

#[derive(Clone, Copy, Debug, PartialEq, Eq, Hash)]
pub enum Bound {
    Min,
    Max,
    Lit(i64),
}

#[derive(Clone, Copy, Debug, PartialEq, Eq, Hash)]
pub struct IntRange {
    pub lo: Bound,
    pub hi: Bound,
    pub ext: bool,
}

impl IntRange {
    pub fn lit(lo: i64, hi: i64) -> Self {
        IntRange { lo: Bound::Lit(lo), hi: Bound::Lit(hi), ext: false }
    }
    pub fn ext(mut self) -> Self {
        self.ext = true;
        self
    }
    /// PER-visible lower / upper bound
    pub fn lb(&self) -> Option<i64> {
        if let Bound::Lit(v) = self.lo { Some(v) } else { None }
    }
    pub fn ub(&self) -> Option<i64> {
        if let Bound::Lit(v) = self.hi { Some(v) } else { None }
    }
}

#[derive(Clone, Copy, Debug, PartialEq, Eq, Hash)]
pub enum Size {
    Any,
    Fix(u64, bool),
    /// (lo, hi or MAX, extensible)
    Range(u64, Option<u64>, bool),
}

impl Size {
    pub fn lb(&self) -> u64 {
        match self {
            Size::Any => 0,
            Size::Fix(n, _) => *n,
            Size::Range(l, _, _) => *l,
        }
    }
    pub fn ub(&self) -> Option<u64> {
        match self {
            Size::Any => None,
            Size::Fix(n, _) => Some(*n),
            Size::Range(_, h, _) => *h,
        }
    }
    pub fn ext(&self) -> bool {
        match self {
            Size::Any => false,
            Size::Fix(_, e) | Size::Range(_, _, e) => *e,
        }
    }
    pub fn contains(&self, n: u64) -> bool {
        n >= self.lb() && self.ub().map_or(true, |u| n <= u)
    }
    /// `paren`: spelled `(SIZE(..))` instead of `SIZE(..)`
    pub fn asn(&self, paren: bool) -> String {
        let inner = match self {
            Size::Any => return String::new(),
            Size::Fix(n, e) => format!("SIZE({}{})", n, if *e { ",..." } else { "" }),
            Size::Range(l, h, e) => format!(
                "SIZE({}..{}{})",
                l,
                h.map_or("MAX".to_string(), |h| h.to_string()),
                if *e { ",..." } else { "" }
            ),
        };
        if paren { format!("({inner})") } else { inner }
    }
}

#[derive(Clone, Copy, Debug, PartialEq, Eq, Hash)]
pub enum Charset {
    Utf8,
    Ia5,
    Numeric,
    Printable,
    Visible,
}

impl Charset {
    pub fn asn(&self) -> &'static str {
        match self {
            Charset::Utf8 => "UTF8String",
            Charset::Ia5 => "IA5String",
            Charset::Numeric => "NumericString",
            Charset::Printable => "PrintableString",
            Charset::Visible => "VisibleString",
        }
    }
    pub fn all() -> [Charset; 5] {
        [Charset::Utf8, Charset::Ia5, Charset::Numeric, Charset::Printable, Charset::Visible]
    }
    /// permitted characters (X.680 41), ascending
    pub fn alphabet(&self) -> Vec<char> {
        match self {
            Charset::Utf8 => vec![],
            Charset::Ia5 => (0u8..=127).map(|c| c as char).collect(),
            Charset::Numeric => " 0123456789".chars().collect(),
            Charset::Printable => {
                let mut v: Vec<char> = " '()+,-./:=?".chars().collect();
                v.extend('0'..='9');
                v.extend('A'..='Z');
                v.extend('a'..='z');
                v.sort();
                v
            }
            Charset::Visible => (32u8..=126).map(|c| c as char).collect(),
        }
    }
}

#[derive(Clone, Debug, PartialEq, Eq, Hash)]
pub enum Lit {
    Int(i64),
    Bool(bool),
    Str(String),
    /// enumerated item by name
    Enum(String),
    Hex(Vec<u8>),
}

impl Lit {
    pub fn asn(&self) -> String {
        match self {
            Lit::Int(i) => i.to_string(),
            Lit::Bool(b) => if *b { "TRUE".into() } else { "FALSE".into() },
            Lit::Str(s) => format!("\"{s}\""),
            Lit::Enum(n) => n.clone(),
            Lit::Hex(b) => format!("'{}'H", b.iter().map(|x| format!("{x:02X}")).collect::<String>()),
        }
    }
}

#[derive(Clone, Debug, PartialEq, Eq, Hash)]
pub enum Presence {
    Mandatory,
    Optional,
    Default(Lit),
}

#[derive(Clone, Debug, PartialEq, Eq, Hash)]
pub struct Comp {
    pub name: String,
    pub tag: Option<Tag>,
    pub ty: Ty,
    pub presence: Presence,
}

impl Comp {
    pub fn new(name: &str, ty: Ty) -> Self {
        Comp { name: name.into(), tag: None, ty, presence: Presence::Mandatory }
    }
    pub fn opt(mut self) -> Self {
        self.presence = Presence::Optional;
        self
    }
    pub fn default(mut self, l: Lit) -> Self {
        self.presence = Presence::Default(l);
        self
    }
    pub fn tagged(mut self, t: Tag) -> Self {
        self.tag = Some(t);
        self
    }
}

#[derive(Clone, Debug, PartialEq, Eq, Hash)]
pub struct Alt {
    pub name: String,
    pub tag: Option<Tag>,
    pub ty: Ty,
}

impl Alt {
    pub fn new(name: &str, ty: Ty) -> Self {
        Alt { name: name.into(), tag: None, ty }
    }
    pub fn tagged(mut self, t: Tag) -> Self {
        self.tag = Some(t);
        self
    }
}

#[derive(Clone, Debug, PartialEq, Eq, Hash)]
pub enum Ty {
    Bool,
    Null,
    Int { range: Option<IntRange>, named: Vec<(String, i64)> },
    /// root items, then `Some(additions)` if the type has an extension marker
    Enum { root: Vec<(String, Option<u64>)>, ext: Option<Vec<(String, Option<u64>)>> },
    BitStr { size: Size, named: Vec<(String, u64)>, paren: bool },
    OctStr { size: Size, paren: bool },
    Str { cs: Charset, size: Size, paren: bool },
    /// `ext_after`: None = no marker; Some(k) = marker after the first k components (k = 0: before the first)
    Seq { set: bool, comps: Vec<Comp>, ext_after: Option<usize> },
    SeqOf { set: bool, size: Size, paren: bool, inner: Box<Ty> },
    /// `ext_after`: Some(k) = marker after the first k alternatives (k >= 1)
    Choice { alts: Vec<Alt>, ext_after: Option<usize> },
    Ref(String),
}

impl Ty {
    pub fn int() -> Ty {
        Ty::Int { range: None, named: vec![] }
    }
    pub fn int_r(lo: i64, hi: i64) -> Ty {
        Ty::Int { range: Some(IntRange::lit(lo, hi)), named: vec![] }
    }
    pub fn int_range(r: IntRange) -> Ty {
        Ty::Int { range: Some(r), named: vec![] }
    }
    pub fn enum_n(n: usize) -> Ty {
        Ty::Enum { root: (0..n).map(|i| (format!("e{i}"), None)).collect(), ext: None }
    }
    pub fn oct(size: Size) -> Ty {
        Ty::OctStr { size, paren: true }
    }
    pub fn bits(size: Size) -> Ty {
        Ty::BitStr { size, named: vec![], paren: true }
    }
    pub fn string(cs: Charset, size: Size) -> Ty {
        Ty::Str { cs, size, paren: true }
    }
    pub fn seq(comps: Vec<Comp>) -> Ty {
        Ty::Seq { set: false, comps, ext_after: None }
    }
    pub fn seq_of(size: Size, inner: Ty) -> Ty {
        Ty::SeqOf { set: false, size, paren: true, inner: Box::new(inner) }
    }
    pub fn set_of(size: Size, inner: Ty) -> Ty {
        Ty::SeqOf { set: true, size, paren: true, inner: Box::new(inner) }
    }
    pub fn choice(alts: Vec<Alt>) -> Ty {
        Ty::Choice { alts, ext_after: None }
    }
    pub fn r(name: &str) -> Ty {
        Ty::Ref(name.into())
    }

    pub fn asn(&self) -> String {
        match self {
            Ty::Bool => "BOOLEAN".into(),
            Ty::Null => "NULL".into(),
            Ty::Int { range, named } => {
                let mut s = "INTEGER".to_string();
                if !named.is_empty() {
                    s.push_str(" { ");
                    s.push_str(&named.iter().map(|(n, v)| format!("{n}({v})")).collect::<Vec<_>>().join(", "));
                    s.push_str(" }");
                }
                if let Some(r) = range {
                    let b = |b: &Bound| match b {
                        Bound::Min => "MIN".to_string(),
                        Bound::Max => "MAX".to_string(),
                        Bound::Lit(v) => v.to_string(),
                    };
                    s.push_str(&format!(" ({}..{}{})", b(&r.lo), b(&r.hi), if r.ext { ",..." } else { "" }));
                }
                s
            }
            Ty::Enum { root, ext } => {
                let item = |(n, v): &(String, Option<u64>)| match v {
                    Some(v) => format!("{n}({v})"),
                    None => n.clone(),
                };
                let mut parts: Vec<String> = root.iter().map(item).collect();
                if let Some(e) = ext {
                    parts.push("...".into());
                    parts.extend(e.iter().map(item));
                }
                format!("ENUMERATED {{ {} }}", parts.join(", "))
            }
            Ty::BitStr { size, named, paren } => {
                let mut s = "BIT STRING".to_string();
                if !named.is_empty() {
                    s.push_str(" { ");
                    s.push_str(&named.iter().map(|(n, v)| format!("{n}({v})")).collect::<Vec<_>>().join(", "));
                    s.push_str(" }");
                }
                if *size != Size::Any {
                    s.push(' ');
                    s.push_str(&size.asn(*paren));
                }
                s
            }
            Ty::OctStr { size, paren } => {
                if *size == Size::Any { "OCTET STRING".into() } else { format!("OCTET STRING {}", size.asn(*paren)) }
            }
            Ty::Str { cs, size, paren } => {
                if *size == Size::Any { cs.asn().into() } else { format!("{} {}", cs.asn(), size.asn(*paren)) }
            }
            Ty::Seq { set, comps, ext_after } => {
                let mut parts: Vec<String> = vec![];
                for (i, c) in comps.iter().enumerate() {
                    if *ext_after == Some(i) {
                        parts.push("...".into());
                    }
                    let mut s = c.name.clone();
                    if let Some(t) = &c.tag {
                        s.push(' ');
                        s.push_str(&t.asn());
                    }
                    s.push(' ');
                    s.push_str(&c.ty.asn());
                    match &c.presence {
                        Presence::Mandatory => {}
                        Presence::Optional => s.push_str(" OPTIONAL"),
                        Presence::Default(l) => {
                            s.push_str(" DEFAULT ");
                            s.push_str(&l.asn());
                        }
                    }
                    parts.push(s);
                }
                if *ext_after == Some(comps.len()) {
                    parts.push("...".into());
                }
                format!("{} {{ {} }}", if *set { "SET" } else { "SEQUENCE" }, parts.join(", "))
            }
            Ty::SeqOf { set, size, paren, inner } => {
                let kw = if *set { "SET" } else { "SEQUENCE" };
                if *size == Size::Any {
                    format!("{kw} OF {}", inner.asn())
                } else {
                    format!("{kw} {} OF {}", size.asn(*paren), inner.asn())
                }
            }
            Ty::Choice { alts, ext_after } => {
                let mut parts: Vec<String> = vec![];
                for (i, a) in alts.iter().enumerate() {
                    if *ext_after == Some(i) {
                        parts.push("...".into());
                    }
                    let mut s = a.name.clone();
                    if let Some(t) = &a.tag {
                        s.push(' ');
                        s.push_str(&t.asn());
                    }
                    s.push(' ');
                    s.push_str(&a.ty.asn());
                    parts.push(s);
                }
                if *ext_after == Some(alts.len()) {
                    parts.push("...".into());
                }
                format!("CHOICE {{ {} }}", parts.join(", "))
            }
            Ty::Ref(n) => n.clone(),
        }
    }
}

#[derive(Clone, Debug, PartialEq, Eq, Hash)]
pub struct Def {
    pub name: String,
    pub tag: Option<Tag>,
    pub ty: Ty,
}

#[derive(Clone, Debug, PartialEq, Eq, Hash)]
pub struct ValueDef {
    pub name: String,
    pub ty: Ty,
    pub value: Lit,
}

#[derive(Clone, Debug, PartialEq, Eq, Hash)]
pub enum OidComp {
    Name(String),
    Number(u64),
    NameNumber(String, u64),
}

#[derive(Clone, Debug, PartialEq, Eq, Hash)]
pub struct Import {
    pub what: Vec<String>,
    pub from: String,
    pub from_oid: Option<Vec<OidComp>>,
}

#[derive(Clone, Debug, PartialEq, Eq, Hash, Default)]
pub struct Module {
    pub name: String,
    pub oid: Option<Vec<OidComp>>,
    pub imports: Vec<Import>,
    pub values: Vec<ValueDef>,
    pub defs: Vec<Def>,
}

pub fn oid_asn(o: &[OidComp]) -> String {
    let parts: Vec<String> = o
        .iter()
        .map(|c| match c {
            OidComp::Name(n) => n.clone(),
            OidComp::Number(n) => n.to_string(),
            OidComp::NameNumber(n, v) => format!("{n}({v})"),
        })
        .collect();
    format!("{{ {} }}", parts.join(" "))
}

impl Module {
    pub fn new(name: &str) -> Self {
        Module { name: name.into(), ..Default::default() }
    }
    pub fn def(mut self, name: &str, ty: Ty) -> Self {
        self.defs.push(Def { name: name.into(), tag: None, ty });
        self
    }
    pub fn def_tagged(mut self, name: &str, tag: Tag, ty: Ty) -> Self {
        self.defs.push(Def { name: name.into(), tag: Some(tag), ty });
        self
    }
    pub fn find(&self, name: &str) -> Option<&Def> {
        self.defs.iter().find(|d| d.name == name)
    }
    /// Follow type references to the underlying type.
    pub fn resolve<'a>(&'a self, ty: &'a Ty) -> &'a Ty {
        let mut t = ty;
        let mut guard = 0;
        while let Ty::Ref(n) = t {
            t = &self.find(n).unwrap_or_else(|| panic!("unresolved type reference {n}")).ty;
            guard += 1;
            assert!(guard < 64, "reference cycle");
        }
        t
    }

    /// The default (one definition per line) ASN.1 text of the module.
    pub fn asn(&self) -> String {
        let mut s = String::new();
        s.push_str(&self.name);
        if let Some(o) = &self.oid {
            s.push(' ');
            s.push_str(&oid_asn(o));
        }
        s.push_str(" DEFINITIONS AUTOMATIC TAGS ::= BEGIN\n");
        if !self.imports.is_empty() {
            s.push_str("IMPORTS");
            for i in &self.imports {
                s.push_str(&format!(" {} FROM {}", i.what.join(", "), i.from));
                if let Some(o) = &i.from_oid {
                    s.push(' ');
                    s.push_str(&oid_asn(o));
                }
            }
            s.push_str(";\n");
        }
        for v in &self.values {
            s.push_str(&format!("{} {} ::= {}\n", v.name, v.ty.asn(), v.value.asn()));
        }
        for d in &self.defs {
            s.push_str(&format!(
                "{} ::= {}{}\n",
                d.name,
                d.tag.map(|t| format!("{} ", t.asn())).unwrap_or_default(),
                d.ty.asn()
            ));
        }
        s.push_str("END\n");
        s
    }
}

// -------------------------------------------------------------------------------------------------
// values
// -------------------------------------------------------------------------------------------------

#[derive(Clone, Debug, PartialEq, Eq, Hash)]
pub enum Value {
    Bool(bool),
    Int(i128),
    /// index in declaration order (root items first, then additions)
    Enum(usize),
    Bits(Vec<bool>),
    Bytes(Vec<u8>),
    Str(String),
    Null,
    /// one entry per component in declaration order; None = absent (OPTIONAL or extension addition).
    /// DEFAULT components always carry their value.
    Seq(Vec<Option<Value>>),
    List(Vec<Value>),
    /// alternative index in declaration order
    Choice(usize, Box<Value>),
}

impl Value {
    /// Canonical form used for comparisons across the typed world: OCTET STRING bytes and
    /// SEQUENCE OF INTEGER(0..255) both live in a Rust `Vec<u8>`.
    pub fn normalize(&self) -> Value {
        match self {
            Value::Bytes(b) => Value::List(b.iter().map(|x| Value::Int(*x as i128)).collect()),
            Value::Seq(v) => Value::Seq(v.iter().map(|o| o.as_ref().map(|x| x.normalize())).collect()),
            Value::List(v) => Value::List(v.iter().map(|x| x.normalize()).collect()),
            Value::Choice(i, v) => Value::Choice(*i, Box::new(v.normalize())),
            other => other.clone(),
        }
    }

    pub fn short(&self) -> String {
        let s = self.render();
        crate::truncate(&s, 200)
    }

    pub fn render(&self) -> String {
        match self {
            Value::Bool(b) => b.to_string(),
            Value::Int(i) => i.to_string(),
            Value::Enum(i) => format!("enum#{i}"),
            Value::Bits(b) => {
                if b.len() > 40 {
                    format!("bits[{}]", b.len())
                } else {
                    format!("'{}'B", b.iter().map(|x| if *x { '1' } else { '0' }).collect::<String>())
                }
            }
            Value::Bytes(b) => {
                if b.len() > 20 { format!("bytes[{}]", b.len()) } else { format!("'{}'H", crate::refbits::hex(b)) }
            }
            Value::Str(s) => {
                if s.chars().count() > 30 { format!("str[{}]", s.chars().count()) } else { format!("{s:?}") }
            }
            Value::Null => "NULL".into(),
            Value::Seq(v) => format!(
                "{{{}}}",
                v.iter().map(|o| o.as_ref().map_or("-".to_string(), |x| x.render())).collect::<Vec<_>>().join(", ")
            ),
            Value::List(v) => {
                if v.len() > 8 {
                    format!("list[{}]({}, …)", v.len(), v[0].render())
                } else {
                    format!("[{}]", v.iter().map(|x| x.render()).collect::<Vec<_>>().join(", "))
                }
            }
            Value::Choice(i, v) => format!("alt#{i}:{}", v.render()),
        }
    }

    pub fn to_json(&self) -> serde_json::Value {
        use serde_json::json;
        match self {
            Value::Bool(b) => json!({"b": b}),
            Value::Int(i) => json!({"i": i.to_string()}),
            Value::Enum(i) => json!({"e": i}),
            Value::Bits(b) => json!({"bits": b.iter().map(|x| if *x { '1' } else { '0' }).collect::<String>()}),
            Value::Bytes(b) => json!({"hex": crate::refbits::hex(b)}),
            Value::Str(s) => json!({"s": s}),
            Value::Null => json!({"null": true}),
            Value::Seq(v) => json!({"seq": v.iter().map(|o| o.as_ref().map_or(serde_json::Value::Null, |x| x.to_json())).collect::<Vec<_>>()}),
            Value::List(v) => json!({"list": v.iter().map(|x| x.to_json()).collect::<Vec<_>>()}),
            Value::Choice(i, v) => json!({"alt": i, "v": v.to_json()}),
        }
    }

    pub fn from_json(j: &serde_json::Value) -> Value {
        if let Some(b) = j.get("b") {
            Value::Bool(b.as_bool().unwrap())
        } else if let Some(i) = j.get("i") {
            Value::Int(i.as_str().unwrap().parse().unwrap())
        } else if let Some(e) = j.get("e") {
            Value::Enum(e.as_u64().unwrap() as usize)
        } else if let Some(b) = j.get("bits") {
            Value::Bits(b.as_str().unwrap().chars().map(|c| c == '1').collect())
        } else if let Some(h) = j.get("hex") {
            Value::Bytes(crate::refbits::unhex(h.as_str().unwrap()))
        } else if let Some(s) = j.get("s") {
            Value::Str(s.as_str().unwrap().to_string())
        } else if j.get("null").is_some() {
            Value::Null
        } else if let Some(s) = j.get("seq") {
            Value::Seq(s.as_array().unwrap().iter().map(|x| if x.is_null() { None } else { Some(Value::from_json(x)) }).collect())
        } else if let Some(l) = j.get("list") {
            Value::List(l.as_array().unwrap().iter().map(Value::from_json).collect())
        } else if let Some(a) = j.get("alt") {
            Value::Choice(a.as_u64().unwrap() as usize, Box::new(Value::from_json(&j["v"])))
        } else {
            panic!("bad value json {j}")
        }
    }
}

/// Value of a DEFAULT literal for a component of type `ty`.
pub fn lit_value(m: &Module, ty: &Ty, l: &Lit) -> Value {
    match (m.resolve(ty), l) {
        (_, Lit::Int(i)) => Value::Int(*i as i128),
        (_, Lit::Bool(b)) => Value::Bool(*b),
        (_, Lit::Str(s)) => Value::Str(s.clone()),
        (Ty::Enum { root, ext }, Lit::Enum(n)) => {
            let all: Vec<&String> = root.iter().chain(ext.iter().flatten()).map(|x| &x.0).collect();
            Value::Enum(all.iter().position(|x| *x == n).expect("enum default names an item"))
        }
        (_, Lit::Hex(b)) => Value::Bytes(b.clone()),
        (t, l) => panic!("unsupported default {l:?} for {t:?}"),
    }
}

pub type Env = BTreeMap<String, Ty>;

// -------------------------------------------------------------------------------------------------
// abstract validity (what the ASN.1 type permits, independent of any encoding rule)
// -------------------------------------------------------------------------------------------------

#[derive(Clone, Debug, PartialEq, Eq)]
pub enum Validity {
    /// inside every constraint root
    InRoot,
    /// outside the root of at least one EXTENSIBLE constraint, inside everything else
    InExtension,
    /// violates a non-extensible constraint (or the type itself)
    Invalid(String),
}

impl Validity {
    fn join(self, other: Validity) -> Validity {
        match (self, other) {
            (Validity::Invalid(w), _) | (_, Validity::Invalid(w)) => Validity::Invalid(w),
            (Validity::InExtension, _) | (_, Validity::InExtension) => Validity::InExtension,
            _ => Validity::InRoot,
        }
    }
}

fn size_validity(size: &Size, n: u64, what: &str) -> Validity {
    if size.contains(n) {
        Validity::InRoot
    } else if size.ext() {
        Validity::InExtension
    } else {
        Validity::Invalid(format!("{what} size {n} outside {size:?}"))
    }
}

pub fn check_value(m: &Module, ty: &Ty, v: &Value) -> Validity {
    let ty = m.resolve(ty);
    match (ty, v) {
        (Ty::Bool, Value::Bool(_)) | (Ty::Null, Value::Null) => Validity::InRoot,
        (Ty::Int { range, .. }, Value::Int(i)) => match range {
            None => Validity::InRoot,
            Some(r) => {
                let inside = r.lb().map_or(true, |l| *i >= l as i128) && r.ub().map_or(true, |u| *i <= u as i128);
                if inside {
                    Validity::InRoot
                } else if r.ext {
                    Validity::InExtension
                } else {
                    Validity::Invalid(format!("integer {i} outside {:?}..{:?}", r.lb(), r.ub()))
                }
            }
        },
        (Ty::Enum { root, ext }, Value::Enum(i)) => {
            if *i < root.len() {
                Validity::InRoot
            } else if ext.as_ref().map_or(false, |e| *i < root.len() + e.len()) {
                Validity::InExtension
            } else {
                Validity::Invalid("enumeration index out of range".into())
            }
        }
        (Ty::BitStr { size, .. }, Value::Bits(b)) => size_validity(size, b.len() as u64, "BIT STRING"),
        (Ty::OctStr { size, .. }, Value::Bytes(b)) => size_validity(size, b.len() as u64, "OCTET STRING"),
        (Ty::Str { cs, size, .. }, Value::Str(s)) => {
            if *cs != Charset::Utf8 {
                let a = cs.alphabet();
                if let Some((i, c)) = s.chars().enumerate().find(|(_, c)| !a.contains(c)) {
                    return Validity::Invalid(format!("character {c:?} at {i} not permitted in {}", cs.asn()));
                }
            }
            size_validity(size, s.chars().count() as u64, cs.asn())
        }
        (Ty::SeqOf { size, inner, .. }, Value::List(l)) => {
            let mut r = size_validity(size, l.len() as u64, "SEQUENCE/SET OF");
            for x in l {
                r = r.join(check_value(m, inner, x));
                if matches!(r, Validity::Invalid(_)) {
                    break;
                }
            }
            r
        }
        (Ty::SeqOf { size, inner, .. }, Value::Bytes(b)) => {
            let mut r = size_validity(size, b.len() as u64, "SEQUENCE/SET OF");
            for x in b {
                r = r.join(check_value(m, inner, &Value::Int(*x as i128)));
            }
            r
        }
        (Ty::Seq { comps, ext_after, .. }, Value::Seq(vals)) => {
            if comps.len() != vals.len() {
                return Validity::Invalid("component count".into());
            }
            let nroot = ext_after.unwrap_or(comps.len());
            let mut r = Validity::InRoot;
            for (i, (c, val)) in comps.iter().zip(vals.iter()).enumerate() {
                match val {
                    None => {
                        if i < nroot && c.presence == Presence::Mandatory {
                            return Validity::Invalid(format!("mandatory component {} absent", c.name));
                        }
                    }
                    Some(x) => r = r.join(check_value(m, &c.ty, x)),
                }
            }
            r
        }
        (Ty::Choice { alts, .. }, Value::Choice(i, inner)) => {
            if *i >= alts.len() {
                return Validity::Invalid("alternative index out of range".into());
            }
            check_value(m, &alts[*i].ty, inner)
        }
        (t, v) => Validity::Invalid(format!("value {} does not fit type {}", v.short(), t.asn())),
    }
}

//! Thin observation helpers over the subject's public API.
use asn1rs::protocol::per::{Error, ErrorKind};

/// Variant name + non-backtrace payload of a PER error (never formats the captured backtrace).
pub fn per_err_kind(e: &Error) -> String {
    per_kind(e.kind())
}

pub fn per_kind(k: &ErrorKind) -> String {
    match k {
        ErrorKind::FromUtf8Error(_) => "FromUtf8Error".into(),
        ErrorKind::InvalidString(cs, c, i) => format!("InvalidString({cs:?},{c:?},{i})"),
        ErrorKind::UnsupportedOperation(s) => format!("UnsupportedOperation({s})"),
        ErrorKind::InsufficientSpaceInDestinationBuffer(_) => "InsufficientSpaceInDestinationBuffer".into(),
        ErrorKind::InsufficientDataInSourceBuffer(_) => "InsufficientDataInSourceBuffer".into(),
        ErrorKind::LengthDeterminantExceedsLimit { length, limit, .. } => {
            format!("LengthDeterminantExceedsLimit({length},{limit})")
        }
        ErrorKind::InvalidChoiceIndex(a, b) => format!("InvalidChoiceIndex({a},{b})"),
        ErrorKind::ExtensionFieldsInconsistent(s) => format!("ExtensionFieldsInconsistent({s})"),
        ErrorKind::ValueNotInRange(a, b, c) => format!("ValueNotInRange({a},{b},{c})"),
        ErrorKind::ValueExceedsMaxInt => "ValueExceedsMaxInt".into(),
        ErrorKind::ValueIsNegativeButExpectedUnsigned(a) => format!("ValueIsNegativeButExpectedUnsigned({a})"),
        ErrorKind::SizeNotInRange(a, b, c) => format!("SizeNotInRange({a},{b},{c})"),
        ErrorKind::BitLenNotInRange(a, b, c) => format!("BitLenNotInRange({a},{b},{c})"),
        ErrorKind::OptFlagsExhausted => "OptFlagsExhausted".into(),
        ErrorKind::EndOfStream => "EndOfStream".into(),
    }
}

/// Only the variant name (for outcome tables that must ignore payload differences).
pub fn per_kind_name(k: &ErrorKind) -> &'static str {
    match k {
        ErrorKind::FromUtf8Error(_) => "FromUtf8Error",
        ErrorKind::InvalidString(..) => "InvalidString",
        ErrorKind::UnsupportedOperation(_) => "UnsupportedOperation",
        ErrorKind::InsufficientSpaceInDestinationBuffer(_) => "InsufficientSpaceInDestinationBuffer",
        ErrorKind::InsufficientDataInSourceBuffer(_) => "InsufficientDataInSourceBuffer",
        ErrorKind::LengthDeterminantExceedsLimit { .. } => "LengthDeterminantExceedsLimit",
        ErrorKind::InvalidChoiceIndex(..) => "InvalidChoiceIndex",
        ErrorKind::ExtensionFieldsInconsistent(_) => "ExtensionFieldsInconsistent",
        ErrorKind::ValueNotInRange(..) => "ValueNotInRange",
        ErrorKind::ValueExceedsMaxInt => "ValueExceedsMaxInt",
        ErrorKind::ValueIsNegativeButExpectedUnsigned(_) => "ValueIsNegativeButExpectedUnsigned",
        ErrorKind::SizeNotInRange(..) => "SizeNotInRange",
        ErrorKind::BitLenNotInRange(..) => "BitLenNotInRange",
        ErrorKind::OptFlagsExhausted => "OptFlagsExhausted",
        ErrorKind::EndOfStream => "EndOfStream",
    }
}

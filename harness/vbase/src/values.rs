//! Value enumerators: the finite, explicitly described value domain of every abstract type
//! (DESIGN.md 3.3). No randomness: domains are boundary sets, products and presence patterns.

use crate::schema::*;

#[derive(Clone, Copy, Debug, PartialEq, Eq)]
pub struct Budget {
    /// largest collection size to generate (elements / octets / bits / characters)
    pub max_size: u64,
    /// how many values per nested leaf (depth > 0)
    pub nested_leaf: usize,
    /// cap for the full product of a container's component domains
    pub product_cap: usize,
    /// include values outside the root of extensible constraints
    pub ext_out: bool,
    /// additional sizes beyond max_size, used only for 1-bit / 1-octet items (OCTET/BIT STRING,
    /// character strings, SEQUENCE OF BOOLEAN): every fragment-count class
    pub large_sizes: &'static [u64],
}

impl Budget {
    pub fn quick() -> Self {
        Budget { max_size: 300, nested_leaf: 3, product_cap: 512, ext_out: true, large_sizes: &[65536, 81920] }
    }
    pub fn thorough() -> Self {
        Budget { max_size: 70000, nested_leaf: 4, product_cap: 4096, ext_out: true, large_sizes: &[81919, 81920, 81921, 98304, 131072, 147456, 200000] }
    }
    pub fn with_max_size(mut self, n: u64) -> Self {
        self.max_size = n;
        self
    }
}

pub const SIZE_BOUNDARIES: [u64; 30] = [0, 1, 2, 3, 4, 5, 6, 7, 8, 9, 16, 17, 32, 63, 64, 65, 127, 128, 255, 256, 300, 16383, 16384, 16385, 32768, 49152, 65535, 65536, 65537, 70000];

pub fn int_boundaries() -> Vec<i128> {
    let mut v: Vec<i128> = vec![0, 1, -1, 2, -2, 5, 7, 8, 100, -100];
    for k in [7u32, 8, 15, 16, 23, 24, 31, 32, 39, 40, 47, 48, 55, 56, 63] {
        let p = 1i128 << k;
        for d in [-1i128, 0, 1] {
            v.push(p + d);
            v.push(-p + d);
        }
    }
    v.push(u64::MAX as i128);
    v.push(u64::MAX as i128 - 1);
    v.sort();
    v.dedup();
    v
}

fn take_spread<T: Clone>(v: Vec<T>, n: usize) -> Vec<T> {
    if v.len() <= n || n == 0 {
        return v;
    }
    // first, last and evenly spread in between (deterministic)
    let mut out = vec![];
    for k in 0..n {
        let idx = k * (v.len() - 1) / (n - 1).max(1);
        out.push(v[idx].clone());
    }
    out
}

pub fn int_values(range: &Option<IntRange>, b: &Budget, nested: bool) -> Vec<Value> {
    let (lb, ub, ext) = match range {
        None => (None, None, false),
        Some(r) => (r.lb().map(|x| x as i128), r.ub().map(|x| x as i128), r.ext),
    };
    let mut v: Vec<i128> = vec![];
    let inside = |x: i128| lb.map_or(true, |l| x >= l) && ub.map_or(true, |u| x <= u);
    if let Some(l) = lb {
        v.extend([l, l + 1, l + 2]);
    }
    if let Some(u) = ub {
        v.extend([u, u - 1, u - 2]);
    }
    if let (Some(l), Some(u)) = (lb, ub) {
        v.push(l + (u - l) / 2);
    }
    for x in int_boundaries() {
        v.push(x);
    }
    let mut inside_v: Vec<i128> = v.iter().copied().filter(|x| inside(*x)).collect();
    inside_v.sort();
    inside_v.dedup();
    let mut out = inside_v;
    if ext && b.ext_out {
        let mut o: Vec<i128> = vec![];
        if let Some(l) = lb {
            o.extend([l - 1, l - 2, l - 300]);
        }
        if let Some(u) = ub {
            o.extend([u + 1, u + 2, u + 300]);
        }
        o.extend([i64::MIN as i128, i64::MAX as i128, -129, 128, 70000]);
        // every octet boundary of the unconstrained form (-2^(8k-1), 2^(8k-1) and neighbours)
        o.extend(int_boundaries());
        o.retain(|x| !inside(*x) && *x >= i64::MIN as i128 && *x <= i64::MAX as i128);
        o.sort();
        o.dedup();
        out.extend(o);
    }
    // values must fit 64 bits one way or the other
    out.retain(|x| *x >= i64::MIN as i128 && *x <= u64::MAX as i128);
    if nested {
        out = take_spread(out, b.nested_leaf.max(2));
    }
    out.into_iter().map(Value::Int).collect()
}

pub fn sizes_for_cheap(size: &Size, b: &Budget, nested: bool) -> Vec<u64> {
    let mut v = sizes_for(size, b, nested);
    if !nested {
        for n in b.large_sizes {
            if (size.contains(*n) || size.ext()) && !v.contains(n) {
                v.push(*n);
            }
        }
    }
    v
}

pub fn sizes_for(size: &Size, b: &Budget, nested: bool) -> Vec<u64> {
    let mut v: Vec<u64> = vec![];
    v.extend([size.lb(), size.lb() + 1]);
    if let Some(u) = size.ub() {
        v.extend([u, u.saturating_sub(1)]);
    }
    v.extend(SIZE_BOUNDARIES);
    let mut inside: Vec<u64> = v.iter().copied().filter(|n| size.contains(*n) && *n <= b.max_size).collect();
    inside.sort();
    inside.dedup();
    let mut out = inside;
    if size.ext() && b.ext_out {
        let mut o = vec![];
        if size.lb() > 0 {
            o.push(size.lb() - 1);
            o.push(0);
        }
        if let Some(u) = size.ub() {
            o.extend([u + 1, u + 2, 2 * u + 1, 127, 128, 129]);
        }
        o.retain(|n| !size.contains(*n) && *n <= b.max_size);
        o.sort();
        o.dedup();
        out.extend(o);
    }
    if nested {
        out = take_spread(out, b.nested_leaf.max(2));
    }
    out
}

fn byte_pattern(p: usize, n: usize) -> Vec<u8> {
    match p {
        0 => vec![0x00; n],
        1 => vec![0xFF; n],
        _ => (0..n).map(|i| (i as u32).wrapping_mul(37).wrapping_add(11) as u8).collect(),
    }
}

fn string_of(cs: Charset, n: usize, p: usize) -> String {
    match cs {
        Charset::Utf8 => {
            // mix of 1, 2, 3 and 4 byte scalars; n counts characters
            let pool: Vec<char> = match p {
                0 => vec!['a'],
                1 => vec!['é', 'z', '€', '𝄞', ' '],
                _ => vec!['\u{7f}', '\u{80}', '\u{7ff}', '\u{800}', '\u{ffff}', '\u{10000}', 'A'],
            };
            // the multiplier is coprime to both pool lengths, so every scalar of the pool appears
            (0..n).map(|i| pool[(i * 3 + p) % pool.len()]).collect()
        }
        _ => {
            let a = cs.alphabet();
            match p {
                0 => std::iter::repeat(a[0]).take(n).collect(),
                1 => std::iter::repeat(*a.last().unwrap()).take(n).collect(),
                // walks the whole alphabet so that every permitted character appears
                _ => (0..n).map(|i| a[(i * 37 + 11) % a.len()]).collect(),
            }
        }
    }
}

fn patterns(nested: bool, n: u64) -> Vec<usize> {
    if n == 0 {
        vec![2]
    } else if nested || n > 4096 {
        vec![2]
    } else {
        vec![0, 1, 2]
    }
}

pub fn values(m: &Module, ty: &Ty, b: &Budget) -> Vec<Value> {
    values_d(m, ty, b, 0)
}

fn values_d(m: &Module, ty: &Ty, b: &Budget, depth: usize) -> Vec<Value> {
    let nested = depth > 0;
    let ty = m.resolve(ty);
    match ty {
        Ty::Bool => vec![Value::Bool(false), Value::Bool(true)],
        Ty::Null => vec![Value::Null],
        Ty::Int { range, .. } => int_values(range, b, nested),
        Ty::Enum { root, ext } => {
            let n = root.len() + ext.as_ref().map_or(0, |e| e.len());
            let all: Vec<Value> = (0..n).map(Value::Enum).collect();
            if nested { take_spread(all, b.nested_leaf.max(2)) } else { all }
        }
        Ty::BitStr { size, .. } => {
            let mut out = vec![];
            for n in sizes_for_cheap(size, b, nested) {
                for p in patterns(nested, n) {
                    let bytes = byte_pattern(p, ((n + 7) / 8) as usize);
                    let mut bits = crate::refbits::unpack(&bytes);
                    bits.truncate(n as usize);
                    out.push(Value::Bits(bits));
                }
            }
            out
        }
        Ty::OctStr { size, .. } => {
            let mut out = vec![];
            for n in sizes_for_cheap(size, b, nested) {
                for p in patterns(nested, n) {
                    out.push(Value::Bytes(byte_pattern(p, n as usize)));
                }
            }
            out
        }
        Ty::Str { cs, size, .. } => {
            let mut out = vec![];
            for n in sizes_for_cheap(size, b, nested) {
                for p in patterns(nested, n) {
                    out.push(Value::Str(string_of(*cs, n as usize, p)));
                }
            }
            // a multi-octet character lying across an octet offset that is a power of two (code that cuts
            // or copies a decoded string at a fixed octet count meets the middle of a character)
            if !nested && *cs == Charset::Utf8 {
                // three long strings of three-octet characters, shifted by 0, 1 and 2 octets: every octet offset
                // behind the first two lies inside a character in two of them, whatever fixed count code cuts at
                let longest = sizes_for_cheap(size, b, false).into_iter().filter(|n| *n <= 17000).max().unwrap_or(0);
                if longest >= 8 {
                    for shift in 0..3usize {
                        let mut t: String = std::iter::repeat('a').take(shift).collect();
                        while (t.chars().count() as u64) < longest {
                            t.push('€');
                        }
                        out.push(Value::Str(t));
                    }
                }
                for at in [16u64, 64, 256, 1024] {
                    let n = at + 2;
                    if size.contains(n) && n <= b.max_size {
                        let mut t: String = std::iter::repeat('a').take(at as usize - 1).collect();
                        t.push('€');
                        t.push_str("zz");
                        out.push(Value::Str(t));
                    }
                }
            }
            // every permitted character appears at least once (if the size allows it)
            if !nested && *cs != Charset::Utf8 {
                let a = cs.alphabet();
                let n = a.len() as u64;
                if size.contains(n) && n <= b.max_size {
                    out.push(Value::Str(a.iter().collect()));
                }
            }
            out
        }
        Ty::SeqOf { size, inner, .. } => {
            let inner_vals = values_d(m, inner, b, depth + 1);
            let inner_ty = m.resolve(inner);
            let cheap = matches!(inner_ty, Ty::Bool | Ty::Null | Ty::Int { .. } | Ty::Enum { .. });
            let mut out = vec![];
            let sizes = if matches!(inner_ty, Ty::Bool) { sizes_for_cheap(size, b, nested) } else { sizes_for(size, b, nested) };
            for n in sizes {
                if n > 300 && !cheap {
                    continue;
                }
                if inner_vals.is_empty() {
                    if n == 0 {
                        out.push(Value::List(vec![]));
                    }
                    continue;
                }
                // position dependent content so that a misplaced element is visible
                let k = inner_vals.len();
                out.push(Value::List((0..n as usize).map(|i| inner_vals[(i * 37 + 11) % k].clone()).collect()));
                if !nested && n > 0 && n <= 8 {
                    out.push(Value::List((0..n as usize).map(|i| inner_vals[i % k].clone()).collect()));
                    out.push(Value::List((0..n as usize).map(|_| inner_vals[k - 1].clone()).collect()));
                }
            }
            out
        }
        Ty::Seq { comps, ext_after, .. } => {
            let nroot = ext_after.unwrap_or(comps.len());
            // per component: the list of Option<Value> it may take
            let mut doms: Vec<Vec<Option<Value>>> = vec![];
            for (i, c) in comps.iter().enumerate() {
                let mut d: Vec<Option<Value>> = values_d(m, &c.ty, b, depth + 1).into_iter().map(Some).collect();
                match &c.presence {
                    Presence::Optional => d.insert(0, None),
                    Presence::Default(l) => {
                        // the default value itself must be in the domain (it is the "omitted" case)
                        let dv = lit_value(m, &c.ty, l);
                        if !d.iter().any(|x| x.as_ref().map(|v| v.normalize()) == Some(dv.normalize())) {
                            d.insert(0, Some(dv));
                        }
                        if i >= nroot {
                            d.insert(0, None);
                        }
                    }
                    Presence::Mandatory => {
                        if i >= nroot {
                            d.insert(0, None); // an extension addition may be absent (older sender)
                        }
                    }
                }
                doms.push(d);
            }
            product_or_diagonal(&doms, b.product_cap).into_iter().map(Value::Seq).collect()
        }
        Ty::Choice { alts, .. } => {
            let mut out = vec![];
            for (i, a) in alts.iter().enumerate() {
                let vs = values_d(m, &a.ty, b, depth + 1);
                let vs = if nested { take_spread(vs, b.nested_leaf.max(2)) } else { vs };
                for v in vs {
                    out.push(Value::Choice(i, Box::new(v)));
                }
            }
            out
        }
        Ty::Ref(_) => unreachable!(),
    }
}

/// Full product if it is small enough; otherwise: every presence pattern (first vs. a later element
/// of each domain that starts with None) combined with a covering diagonal of the other values.
pub fn product_or_diagonal(doms: &[Vec<Option<Value>>], cap: usize) -> Vec<Vec<Option<Value>>> {
    if doms.iter().any(|d| d.is_empty()) {
        return vec![];
    }
    let total: u128 = doms.iter().fold(1u128, |acc, d| acc.saturating_mul(d.len() as u128));
    if total <= cap as u128 {
        let mut out: Vec<Vec<Option<Value>>> = vec![vec![]];
        for d in doms {
            let mut next = Vec::with_capacity(out.len() * d.len());
            for prefix in &out {
                for x in d {
                    let mut p = prefix.clone();
                    p.push(x.clone());
                    next.push(p);
                }
            }
            out = next;
        }
        return out;
    }
    // presence patterns x diagonal
    let optional: Vec<usize> = (0..doms.len()).filter(|i| doms[*i][0].is_none() && doms[*i].len() > 1).collect();
    let npat: usize = 1usize << optional.len().min(12);
    let longest = doms.iter().map(|d| d.len()).max().unwrap();
    let mut out = vec![];
    let mut seen = std::collections::HashSet::new();
    for pat in 0..npat {
        for k in 0..longest {
            let mut row = vec![];
            for (i, d) in doms.iter().enumerate() {
                if let Some(oi) = optional.iter().position(|x| *x == i) {
                    if oi < 12 && pat & (1 << oi) == 0 {
                        row.push(None);
                    } else {
                        // a present value: skip index 0 (None)
                        let present = &d[1..];
                        row.push(present[k % present.len()].clone());
                    }
                } else {
                    row.push(d[k % d.len()].clone());
                }
            }
            if seen.insert(row.clone()) {
                out.push(row);
            }
            if out.len() >= cap * 4 {
                return out;
            }
        }
    }
    out
}

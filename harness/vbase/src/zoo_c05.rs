//! C05 version chains: chain X version v = base type + the first v additions of the chain's menu.
//! Every pair (v1 < v2) of one chain is a (V1, V2 = V1 + k additions) pair of the property.

use crate::schema::*;
use crate::zoo_def::ZooModule;

#[derive(Clone, Debug)]
pub struct Chain {
    pub name: &'static str,
    pub kind: ChainKind,
    /// number of versions = additions.len() + 1
    pub additions: usize,
    /// how many versions (0..=n) belong to the quick tier
    pub quick_versions: usize,
}

#[derive(Clone, Debug, PartialEq)]
pub enum ChainKind {
    Seq { set: bool, roots: usize },
    Choice,
    Enum,
    /// outer type fixed, the evolving part is the type of an extension addition (chain a versions)
    NestedInAddition,
    NestedInChoiceExt,
    NestedInRoot,
    /// the evolving type is a ROOT component of an extensible SEQUENCE that has additions of its own
    NestedInExtensibleRoot,
    WithDefaultAddition,
}

fn oct(n: u64) -> Ty {
    Ty::oct(Size::Fix(n, false))
}

fn nested() -> Ty {
    Ty::Seq { set: false, comps: vec![Comp::new("p", Ty::int_r(0, 7)), Comp::new("q", Ty::Bool)], ext_after: Some(1) }
}

fn menu_a() -> Vec<(&'static str, Ty)> {
    vec![("x0", Ty::int_r(0, 255)), ("x1", Ty::Bool), ("x2", oct(2)), ("x3", nested()), ("x4", Ty::Null), ("x5", oct(127)), ("x6", oct(128)), ("x7", oct(300))]
}
fn menu_b() -> Vec<(&'static str, Ty)> {
    vec![("y0", oct(126)), ("y1", oct(129)), ("y2", Ty::int_r(0, 255)), ("y3", oct(255)), ("y4", oct(256)), ("y5", Ty::Bool), ("y6", Ty::Null), ("y7", nested())]
}
fn menu_c() -> Vec<(&'static str, Ty)> {
    vec![("z0", Ty::Bool), ("z1", Ty::int_r(0, 255)), ("z2", oct(2)), ("z3", oct(128))]
}

/// the FIRST addition already needs the two-octet length form (128 octets): the bit behind the presence flags is 1
fn menu_m() -> Vec<(&'static str, Ty)> {
    vec![("w0", oct(128)), ("w1", Ty::Bool), ("w2", oct(300)), ("w3", Ty::int_r(0, 255))]
}

pub fn chains() -> Vec<Chain> {
    vec![
        Chain { name: "m", kind: ChainKind::Seq { set: false, roots: 1 }, additions: 4, quick_versions: 3 },
        Chain { name: "n", kind: ChainKind::NestedInExtensibleRoot, additions: 3, quick_versions: 3 },
        Chain { name: "a", kind: ChainKind::Seq { set: false, roots: 1 }, additions: 8, quick_versions: 4 },
        Chain { name: "b", kind: ChainKind::Seq { set: false, roots: 2 }, additions: 8, quick_versions: 3 },
        Chain { name: "c", kind: ChainKind::Seq { set: true, roots: 2 }, additions: 4, quick_versions: 3 },
        Chain { name: "d", kind: ChainKind::Choice, additions: 4, quick_versions: 3 },
        Chain { name: "e", kind: ChainKind::Enum, additions: 4, quick_versions: 3 },
        Chain { name: "f", kind: ChainKind::NestedInAddition, additions: 4, quick_versions: 3 },
        Chain { name: "g", kind: ChainKind::NestedInChoiceExt, additions: 3, quick_versions: 3 },
        Chain { name: "h", kind: ChainKind::NestedInRoot, additions: 3, quick_versions: 3 },
        Chain { name: "k", kind: ChainKind::WithDefaultAddition, additions: 3, quick_versions: 3 },
    ]
}

fn seq_version(set: bool, roots: usize, menu: &[(&'static str, Ty)], v: usize) -> Ty {
    let mut comps = vec![Comp::new("a", Ty::int_r(0, 7))];
    if roots >= 2 {
        comps.push(Comp::new("b", Ty::Bool).opt());
    }
    let nroot = comps.len();
    for (n, t) in &menu[..v] {
        comps.push(Comp::new(n, t.clone()));
    }
    Ty::Seq { set, comps, ext_after: Some(nroot) }
}

pub fn version_module(c: &Chain, v: usize) -> Module {
    let name = format!("Zc05{}{v}", c.name);
    let m = Module::new(&name).def("Tsent", Ty::int_r(0, 255));
    match &c.kind {
        ChainKind::Seq { set, roots } => {
            let menu = match c.name {
                "a" => menu_a(),
                "b" => menu_b(),
                "m" => menu_m(),
                _ => menu_c(),
            };
            m.def("Tmsg", seq_version(*set, *roots, &menu, v))
        }
        ChainKind::Choice => {
            let mut alts = vec![Alt::new("r0", Ty::int_r(0, 7)), Alt::new("r1", Ty::Bool)];
            let menu = [("x0", Ty::int_r(0, 255)), ("x1", oct(127)), ("x2", oct(128)), ("x3", Ty::Bool)];
            for (n, t) in &menu[..v] {
                alts.push(Alt::new(n, t.clone()));
            }
            m.def("Tmsg", Ty::Choice { alts, ext_after: Some(2) })
        }
        ChainKind::Enum => {
            let root = vec![("r0".to_string(), None), ("r1".to_string(), None), ("r2".to_string(), None)];
            let ext: Vec<(String, Option<u64>)> = (0..v).map(|i| (format!("x{i}"), None)).collect();
            // the enumeration travels inside a SEQUENCE so that a sentinel can follow it
            m.def("Tmsg", Ty::Enum { root, ext: Some(ext) })
        }
        ChainKind::NestedInAddition => m
            .def("Tinner", seq_version(false, 1, &menu_a(), v))
            .def("Tmsg", Ty::Seq { set: false, comps: vec![Comp::new("h", Ty::int_r(0, 7)), Comp::new("w", Ty::r("Tinner")), Comp::new("t", Ty::Bool)], ext_after: Some(1) }),
        ChainKind::NestedInChoiceExt => m
            .def("Tinner", seq_version(false, 1, &menu_a(), v))
            .def("Tmsg", Ty::Choice { alts: vec![Alt::new("r0", Ty::int_r(0, 7)), Alt::new("w", Ty::r("Tinner"))], ext_after: Some(1) }),
        ChainKind::NestedInRoot => m
            .def("Tinner", seq_version(false, 1, &menu_a(), v))
            .def("Tmsg", Ty::seq(vec![Comp::new("h", Ty::int_r(0, 7)), Comp::new("w", Ty::r("Tinner")), Comp::new("t", Ty::int_r(0, 255))])),
        ChainKind::NestedInExtensibleRoot => m.def("Tinner", seq_version(false, 1, &menu_a(), v)).def(
            "Tmsg",
            Ty::Seq { set: false, comps: vec![Comp::new("h", Ty::int_r(0, 7)), Comp::new("w", Ty::r("Tinner")), Comp::new("t", Ty::Bool), Comp::new("u", Ty::int_r(0, 255)).opt()], ext_after: Some(2) },
        ),
        ChainKind::WithDefaultAddition => {
            let mut comps = vec![Comp::new("a", Ty::int_r(0, 7))];
            let menu: Vec<Comp> = vec![Comp::new("d", Ty::int_r(0, 255)).default(Lit::Int(9)), Comp::new("e", Ty::Bool), Comp::new("o", Ty::int_r(0, 7)).opt()];
            comps.extend(menu[..v].iter().cloned());
            m.def("Tmsg", Ty::Seq { set: false, comps, ext_after: Some(1) })
        }
    }
}

pub fn modules(out: &mut Vec<ZooModule>) {
    for c in chains() {
        for v in 0..=c.additions {
            out.push(ZooModule { id: format!("c05{}{v}", c.name), group: "c05", quick: v <= c.quick_versions, module: version_module(&c, v) });
        }
    }
}

//! C16 component pool (16 components) and the compiled subset (all permutations of every <=2 / <=3
//! subset as SET; in the compiled types every second pool component is OPTIONAL so that the
//! presence-bit order is on the wire too).

use crate::schema::*;
use crate::zoo_def::ZooModule;

/// 16 components, each of a distinct type so that values identify fields.
pub fn pool() -> Vec<Comp> {
    vec![
        Comp::new("x", Ty::int_r(0, 7)).tagged(Tag::u(30)),
        Comp::new("a", Ty::int_r(0, 15)).tagged(Tag::a(1)),
        Comp::new("c3", Ty::int_r(0, 31)).tagged(Tag::c(3)),
        Comp::new("c0", Ty::int_r(0, 63)).tagged(Tag::c(0)),
        Comp::new("p", Ty::int_r(0, 127)).tagged(Tag::p(2)),
        Comp::new("b", Ty::Bool),
        Comp::new("i", Ty::int_r(0, 255)),
        Comp::new("ra", Ty::r("Tapp9")),
        Comp::new("rs", Ty::r("Tsq")),
        Comp::new("rc", Ty::r("Tcho")),
        Comp::new("rt", Ty::r("Tst")),
        Comp::new("so", Ty::seq_of(Size::Range(0, Some(3), false), Ty::Bool)),
        Comp::new("st", Ty::set_of(Size::Range(0, Some(2), false), Ty::Bool)),
        // an untagged extensible CHOICE whose extension alternative has the smallest tag: ordered by its ROOT alternatives
        Comp::new("rx", Ty::r("Tchox")),
        // a tag equal to the type's own universal tag is still an explicit tag (no automatic tagging of the list)
        Comp::new("u2", Ty::int_r(0, 1)).tagged(Tag::u(2)),
        // a tagged inline SEQUENCE: the tag moves to the extracted type, the component stays tagged
        Comp::new("is", Ty::seq(vec![Comp::new("v", Ty::int_r(0, 3))])).tagged(Tag::a(5)),
    ]
}

pub fn helper_defs(m: Module) -> Module {
    m.def_tagged("Tapp9", Tag::a(9), Ty::int_r(0, 3))
        .def("Tsq", Ty::seq(vec![Comp::new("z", Ty::Bool)]))
        .def("Tcho", Ty::choice(vec![Alt::new("m", Ty::Bool).tagged(Tag::c(4)), Alt::new("n", Ty::int_r(0, 7)).tagged(Tag::c(1))]))
        .def("Tchox", Ty::Choice { alts: vec![Alt::new("m", Ty::Bool).tagged(Tag::p(1)), Alt::new("n", Ty::int_r(0, 7)).tagged(Tag::p(3)), Alt::new("o", Ty::Null).tagged(Tag::a(2))], ext_after: Some(2) })
        .def("Tst", Ty::Seq { set: true, comps: vec![Comp::new("z", Ty::Bool)], ext_after: None })
}

/// all ordered selections (permutations of subsets) of size 1..=k from n items
pub fn orderings(n: usize, k: usize) -> Vec<Vec<usize>> {
    let mut out: Vec<Vec<usize>> = vec![];
    let mut level: Vec<Vec<usize>> = vec![vec![]];
    for _ in 0..k {
        let mut next = vec![];
        for p in &level {
            for i in 0..n {
                if !p.contains(&i) {
                    let mut q = p.clone();
                    q.push(i);
                    next.push(q);
                }
            }
        }
        out.extend(next.iter().cloned());
        level = next;
    }
    out
}

pub fn type_name(set: bool, ord: &[usize]) -> String {
    format!("T{}{}", if set { "t" } else { "s" }, ord.iter().map(|i| format!("p{i}")).collect::<String>())
}

pub fn make_type(set: bool, ord: &[usize], ext_after: Option<usize>) -> Ty {
    let p = pool();
    Ty::Seq { set, comps: ord.iter().map(|i| p[*i].clone()).collect(), ext_after }
}

/// compiled variant: pool components with an odd index are OPTIONAL
pub fn make_compiled_type(set: bool, ord: &[usize]) -> Ty {
    let p = pool();
    Ty::Seq { set, comps: ord.iter().map(|i| if i % 2 == 1 { p[*i].clone().opt() } else { p[*i].clone() }).collect(), ext_after: None }
}

pub fn modules(out: &mut Vec<ZooModule>) {
    let all = orderings(pool().len(), 3);
    let quick: Vec<&Vec<usize>> = all.iter().filter(|o| o.len() <= 2).collect();
    let thorough: Vec<&Vec<usize>> = all.iter().filter(|o| o.len() == 3).collect();
    let mut push = |ords: &[&Vec<usize>], prefix: &str, quick: bool| {
        for (ci, ch) in ords.chunks(120).enumerate() {
            let mut m = helper_defs(Module::new(&format!("Z{prefix}{ci}")));
            for o in ch {
                m = m.def(&type_name(true, o), make_compiled_type(true, o));
            }
            out.push(ZooModule { id: format!("{prefix}{ci}"), group: "c16", quick, module: m });
        }
    };
    push(&quick, "c16q", true);
    push(&thorough, "c16t", false);
    // SEQUENCE controls: textual order must be kept
    let mut m = helper_defs(Module::new("Zc16seq"));
    for o in all.iter().filter(|o| o.len() == 2) {
        m = m.def(&type_name(false, o), make_compiled_type(false, o));
    }
    out.push(ZooModule { id: "c16seq".into(), group: "c16", quick: true, module: m });
}

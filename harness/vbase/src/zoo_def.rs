//! The zoo: every abstract module that is pushed through the REAL front end, generator and
//! attribute macro at build time (zoo/build.rs) and whose compiled types the runtime checks drive.
//! The same function is called by build.rs and by the engines, so registry index i <-> module i.
//!
//! Naming rule: definition names are `T` + lower case letters/digits so that the generator's name
//! mangling is the identity (verified in zoo/build.rs against the syn-parsed output).

use crate::schema::*;

#[derive(Clone, Debug)]
pub struct ZooModule {
    pub id: String,
    pub group: &'static str,
    /// part of the quick tier
    pub quick: bool,
    pub module: Module,
}

fn kinds() -> Vec<(&'static str, Box<dyn Fn(Size) -> Ty>)> {
    vec![
        ("oct", Box::new(|s| Ty::oct(s))),
        ("bit", Box::new(|s| Ty::bits(s))),
        ("ia5", Box::new(|s| Ty::string(Charset::Ia5, s))),
        ("num", Box::new(|s| Ty::string(Charset::Numeric, s))),
        ("prt", Box::new(|s| Ty::string(Charset::Printable, s))),
        ("vis", Box::new(|s| Ty::string(Charset::Visible, s))),
        ("utf", Box::new(|s| Ty::string(Charset::Utf8, s))),
        ("sob", Box::new(|s| Ty::seq_of(s, Ty::Bool))),
        ("soi", Box::new(|s| Ty::seq_of(s, Ty::int_r(0, 255)))),
        ("sti", Box::new(|s| Ty::set_of(s, Ty::int_r(0, 7)))),
    ]
}

pub fn size_forms() -> Vec<(&'static str, Size, bool)> {
    vec![
        ("any", Size::Any, true),
        ("f0", Size::Fix(0, false), false),
        ("f1", Size::Fix(1, false), true),
        ("f2", Size::Fix(2, false), false),
        ("f3", Size::Fix(3, false), true),
        ("f17", Size::Fix(17, false), false),
        ("f65535", Size::Fix(65535, false), true),
        ("f65536", Size::Fix(65536, false), true),
        ("r0to1", Size::Range(0, Some(1), false), false),
        ("r1to4", Size::Range(1, Some(4), false), true),
        ("r0to255", Size::Range(0, Some(255), false), false),
        ("r0to256", Size::Range(0, Some(256), false), false),
        ("r4to6", Size::Range(4, Some(6), false), true),
        ("r1to65535", Size::Range(1, Some(65535), false), false),
        ("r1to65536", Size::Range(1, Some(65536), false), false),
        ("r1to70000", Size::Range(1, Some(70000), false), true),
        ("r2tomax", Size::Range(2, None, false), true),
        ("f3x", Size::Fix(3, true), true),
        ("r1to4x", Size::Range(1, Some(4), true), true),
        ("r0to65535x", Size::Range(0, Some(65535), true), false),
    ]
}

pub fn int_forms() -> Vec<(String, Option<IntRange>, bool)> {
    use Bound::*;
    let mut v: Vec<(String, Option<IntRange>, bool)> = vec![("un".into(), None, true)];
    let lits: Vec<(i64, i64, bool)> = vec![
        (0, 0, true),
        (5, 5, false),
        (0, 1, true),
        (0, 2, false),
        (0, 3, false),
        (0, 6, false),
        (0, 7, true),
        (0, 8, false),
        (-1, 1, false),
        (-5, 5, true),
        (0, 127, false),
        (0, 128, false),
        (0, 254, false),
        (0, 255, true),
        (0, 256, true),
        (1, 256, false),
        (-128, 127, true),
        (-129, 127, true),
        (0, 65535, true),
        (0, 65536, false),
        (-32768, 32767, true),
        (0, 4294967295, true),
        (0, 4294967296, false),
        (-2147483648, 2147483647, true),
        (0, i64::MAX, false),
        (i64::MIN, i64::MAX, true),
    ];
    for (i, (lo, hi, q)) in lits.into_iter().enumerate() {
        v.push((format!("l{i}"), Some(IntRange::lit(lo, hi)), q));
    }
    let semi: Vec<(Bound, Bound, bool)> = vec![
        (Lit(1), Max, true),
        (Lit(0), Max, true),
        (Lit(-1), Max, false),
        (Min, Lit(5), true),
        (Min, Lit(0), false),
        (Min, Lit(-5), false),
        (Min, Max, false),
    ];
    for (i, (lo, hi, q)) in semi.into_iter().enumerate() {
        v.push((format!("s{i}"), Some(IntRange { lo, hi, ext: false }), q));
    }
    let ext: Vec<(Bound, Bound, bool)> = vec![(Lit(0), Lit(7), true), (Lit(0), Lit(255), true), (Lit(-5), Lit(5), true), (Lit(1), Max, false), (Lit(0), Lit(4294967295), false)];
    for (i, (lo, hi, q)) in ext.into_iter().enumerate() {
        v.push((format!("x{i}"), Some(IntRange { lo, hi, ext: true }), q));
    }
    v
}

pub fn enum_forms() -> Vec<(String, Ty, bool)> {
    let mut v = vec![];
    for (n, q) in [(1usize, false), (2, true), (3, false), (4, false), (5, true), (8, false), (9, false), (64, false), (65, false)] {
        v.push((format!("n{n}"), Ty::enum_n(n), q));
    }
    let items = |names: &[&str]| -> Vec<(String, Option<u64>)> { names.iter().map(|n| (n.to_string(), None)).collect() };
    v.push(("x0".into(), Ty::Enum { root: items(&["a", "b", "c"]), ext: Some(vec![]) }, false));
    v.push(("x1".into(), Ty::Enum { root: items(&["a", "b", "c"]), ext: Some(items(&["d"])) }, true));
    v.push(("x3".into(), Ty::Enum { root: items(&["a", "b", "c"]), ext: Some(items(&["d", "e", "f"])) }, false));
    v.push(("num".into(), Ty::Enum { root: vec![("a".into(), Some(5)), ("b".into(), Some(2)), ("c".into(), Some(9))], ext: None }, true));
    v.push((
        "numx".into(),
        Ty::Enum { root: vec![("a".into(), Some(7)), ("b".into(), Some(0)), ("c".into(), Some(3))], ext: Some(vec![("d".into(), Some(10)), ("e".into(), Some(11))]) },
        false,
    ));
    v
}

fn leaf_modules(out: &mut Vec<ZooModule>) {
    // integers
    let mut mq = Module::new("Zintq");
    let mut mt = Module::new("Zintt");
    for (n, r, q) in int_forms() {
        let ty = Ty::Int { range: r, named: vec![] };
        if q { mq = mq.def(&format!("Ti{n}"), ty) } else { mt = mt.def(&format!("Ti{n}"), ty) }
    }
    for (n, ty, q) in enum_forms() {
        if q { mq = mq.def(&format!("Te{n}"), ty) } else { mt = mt.def(&format!("Te{n}"), ty) }
    }
    mq = mq.def("Tbool", Ty::Bool).def("Tnull", Ty::Null);
    out.push(ZooModule { id: "intq".into(), group: "leaf", quick: true, module: mq });
    out.push(ZooModule { id: "intt".into(), group: "leaf", quick: false, module: mt });
    // sized kinds
    for (kn, mk) in kinds() {
        let mut mq = Module::new(&format!("Z{kn}q"));
        let mut mt = Module::new(&format!("Z{kn}t"));
        for (sn, size, q) in size_forms() {
            let name = format!("T{kn}{sn}");
            if q { mq = mq.def(&name, mk(size)) } else { mt = mt.def(&name, mk(size)) }
        }
        out.push(ZooModule { id: format!("{kn}q"), group: "leaf", quick: true, module: mq });
        out.push(ZooModule { id: format!("{kn}t"), group: "leaf", quick: false, module: mt });
    }
}

/// C03 shapes: n <= N components of INTEGER (0..7), each mandatory / OPTIONAL / DEFAULT 5, marker none,
/// before the first component, or after component i.
pub fn shape_types(max_n: usize, set: bool) -> Vec<(String, Ty)> {
    let mut out = vec![];
    for n in 0..=max_n {
        let kinds_total = 3usize.pow(n as u32);
        for code in 0..kinds_total {
            let mut c = code;
            let mut kinds = vec![];
            for _ in 0..n {
                kinds.push(c % 3);
                c /= 3;
            }
            let markers: Vec<Option<usize>> = if n == 0 { vec![None] } else { std::iter::once(None).chain((0..=n).map(Some)).collect() };
            for marker in markers {
                let comps: Vec<Comp> = kinds
                    .iter()
                    .enumerate()
                    .map(|(i, k)| {
                        let c = Comp::new(&format!("f{i}"), Ty::int_r(0, 7));
                        match k {
                            0 => c,
                            1 => c.opt(),
                            _ => c.default(Lit::Int(5)),
                        }
                    })
                    .collect();
                let kname: String = kinds.iter().map(|k| ["m", "o", "d"][*k]).collect();
                let mname = match marker {
                    None => "n".to_string(),
                    Some(k) => format!("e{k}"),
                };
                let name = format!("T{}{n}{kname}{mname}", if set { "t" } else { "s" });
                out.push((name, Ty::Seq { set, comps, ext_after: marker }));
            }
        }
    }
    out
}

/// C03 shapes whose components are of REFERENCED types: a plain SEQUENCE (no OPTIONAL, no marker: its reader and
/// writer need no presence bits of their own) and a named INTEGER, each mandatory or OPTIONAL, every marker position.
pub fn shape_ref_types(max_n: usize, set: bool) -> Vec<(String, Ty)> {
    // (a different type first for SEQUENCE and for SET shapes, so that each occurs in front of additions)
    let types = if set { [Ty::r("Tplain"), Ty::r("Tchoice"), Ty::r("Tsmall"), Ty::r("Tsmall")] } else { [Ty::r("Tchoice"), Ty::r("Tplain"), Ty::r("Tsmall"), Ty::r("Tchoice")] };
    let mut out = vec![];
    for n in 1..=max_n {
        for code in 0..2usize.pow(n as u32) {
            let kinds: Vec<usize> = (0..n).map(|i| (code >> i) & 1).collect();
            for marker in std::iter::once(None).chain((0..=n).map(Some)) {
                let comps: Vec<Comp> = kinds.iter().enumerate().map(|(i, k)| if *k == 0 { Comp::new(&format!("f{i}"), types[i].clone()) } else { Comp::new(&format!("f{i}"), types[i].clone()).opt() }).collect();
                let kname: String = kinds.iter().map(|k| ["m", "o"][*k]).collect();
                let mname = match marker {
                    None => "n".to_string(),
                    Some(k) => format!("e{k}"),
                };
                out.push((format!("T{}{n}{kname}{mname}", if set { "q" } else { "r" }), Ty::Seq { set, comps, ext_after: marker }));
            }
        }
    }
    out
}

/// the 64 / 65 boundary: the presence flags of the root (a run of more than 64 bits) and the COUNT of extension
/// additions, whose "normally small length" changes its form at 64 (X.691 11.9.3.4, 19.8)
pub fn wide_types() -> Vec<(String, Ty)> {
    let mut out = vec![];
    for n in [64usize, 65, 70] {
        out.push((format!("Twideo{n}"), Ty::seq((0..n).map(|i| Comp::new(&format!("f{i}"), Ty::int_r(0, 7)).opt()).collect())));
        let mut comps = vec![Comp::new("r", Ty::int_r(0, 7))];
        comps.extend((0..n).map(|i| Comp::new(&format!("x{i}"), Ty::int_r(0, 7))));
        out.push((format!("Twidex{n}"), Ty::Seq { set: false, comps, ext_after: Some(1) }));
    }
    out
}

fn shape_modules(out: &mut Vec<ZooModule>) {
    {
        let mut m = Module::new("Zwide");
        for (n, t) in wide_types() {
            m = m.def(&n, t);
        }
        out.push(ZooModule { id: "wide".into(), group: "shape", quick: true, module: m });
    }
    for (types, prefix, quick) in [(shape_ref_types(3, false), "shrq", true), (shape_ref_types(2, true), "shqq", true), (shape_ref_types(4, false).into_iter().filter(|(_, t)| matches!(t, Ty::Seq { comps, .. } if comps.len() == 4)).collect(), "shr4t", false)] {
        for (ci, ch) in types.chunks(120).enumerate() {
            let mut m = Module::new(&format!("Z{prefix}{ci}")).def("Tplain", Ty::seq(vec![Comp::new("p", Ty::int_r(0, 7)), Comp::new("q", Ty::Bool)])).def("Tsmall", Ty::int_r(0, 255)).def("Tchoice", Ty::choice(vec![Alt::new("i", Ty::int_r(0, 7)), Alt::new("b", Ty::Bool)]));
            for (n, t) in ch {
                m = m.def(n, t.clone());
            }
            out.push(ZooModule { id: format!("{prefix}{ci}"), group: "shape", quick, module: m });
        }
    }
    let chunk = |types: Vec<(String, Ty)>, prefix: &str, group: &'static str, quick: bool, out: &mut Vec<ZooModule>| {
        for (ci, ch) in types.chunks(120).enumerate() {
            let mut m = Module::new(&format!("Z{prefix}{ci}"));
            for (n, t) in ch {
                m = m.def(n, t.clone());
            }
            out.push(ZooModule { id: format!("{prefix}{ci}"), group, quick, module: m });
        }
    };
    // quick: N <= 3, SEQUENCE and SET
    chunk(shape_types(3, false), "shsq", "shape", true, out);
    chunk(shape_types(3, true), "shtq", "shape", true, out);
    // thorough: N = 4 (SEQUENCE and SET), N = 5 (SEQUENCE)
    let n4s: Vec<(String, Ty)> = shape_types(4, false).into_iter().filter(|(_, t)| matches!(t, Ty::Seq { comps, .. } if comps.len() == 4)).collect();
    let n4t: Vec<(String, Ty)> = shape_types(4, true).into_iter().filter(|(_, t)| matches!(t, Ty::Seq { comps, .. } if comps.len() == 4)).collect();
    let n5s: Vec<(String, Ty)> = shape_types(5, false).into_iter().filter(|(_, t)| matches!(t, Ty::Seq { comps, .. } if comps.len() == 5)).collect();
    chunk(n4s, "shs4t", "shape", false, out);
    chunk(n4t, "sht4t", "shape", false, out);
    chunk(n5s, "shs5t", "shape", false, out);
}

fn container_modules(out: &mut Vec<ZooModule>) {
    let ia5 = |s| Ty::string(Charset::Ia5, s);
    // --- quick containers
    let m = Module::new("Zcontq")
        .def("Tinner", Ty::Seq { set: false, comps: vec![Comp::new("a", Ty::int_r(0, 7)), Comp::new("b", Ty::Bool).opt()], ext_after: Some(2) })
        .def("Tenum", Ty::Enum { root: vec![("red".into(), None), ("green".into(), None), ("blue".into(), None)], ext: Some(vec![("alpha".into(), None)]) })
        .def("Tsoseq", Ty::seq_of(Size::Range(0, Some(3), false), Ty::r("Tinner")))
        .def("Tsoso", Ty::seq_of(Size::Any, Ty::seq_of(Size::Fix(2, false), Ty::int_r(0, 255))))
        .def("Tsooct", Ty::seq_of(Size::Range(0, Some(3), false), Ty::oct(Size::Range(0, Some(2), false))))
        .def("Tsoenum", Ty::seq_of(Size::Any, Ty::r("Tenum")))
        .def("Tsoia5", Ty::seq_of(Size::Fix(2, false), ia5(Size::Range(1, Some(4), false))))
        .def("Tch2", Ty::choice(vec![Alt::new("a", Ty::int_r(0, 7)), Alt::new("b", Ty::Bool)]))
        .def(
            "Tch2x1",
            Ty::Choice { alts: vec![Alt::new("a", Ty::int_r(0, 7)), Alt::new("b", Ty::Bool), Alt::new("c", Ty::int_r(0, 255))], ext_after: Some(2) },
        )
        .def(
            "Tchdesc",
            Ty::choice(vec![Alt::new("a", Ty::int_r(0, 7)).tagged(Tag::c(5)), Alt::new("b", Ty::Bool).tagged(Tag::c(2)), Alt::new("c", Ty::Null).tagged(Tag::c(0))]),
        )
        .def("Tchch", Ty::choice(vec![Alt::new("x", Ty::r("Tch2x1")), Alt::new("y", Ty::r("Tch2"))]))
        .def(
            "Tnest",
            Ty::Seq {
                set: false,
                comps: vec![Comp::new("head", Ty::r("Tinner")), Comp::new("n", Ty::int_r(0, 255)), Comp::new("tail", Ty::r("Tinner")).opt(), Comp::new("more", Ty::seq_of(Size::Range(0, Some(2), false), Ty::Bool))],
                ext_after: Some(2),
            },
        )
        .def(
            "Taddkinds",
            Ty::Seq {
                set: false,
                comps: vec![
                    Comp::new("a", Ty::int_r(0, 7)),
                    Comp::new("n", Ty::Null),
                    Comp::new("e", Ty::seq(vec![])),
                    Comp::new("d", Ty::int_r(0, 255)).default(Lit::Int(9)),
                    Comp::new("l", Ty::seq_of(Size::Any, Ty::Bool)).opt(),
                ],
                ext_after: Some(1),
            },
        )
        .def(
            "Tdefaults",
            Ty::seq(vec![
                Comp::new("i", Ty::int_r(-5, 5)).default(Lit::Int(-3)),
                Comp::new("b", Ty::Bool).default(Lit::Bool(true)),
                Comp::new("s", Ty::string(Charset::Utf8, Size::Any)).default(Lit::Str("hi".into())),
                Comp::new("e", Ty::r("Tenum")).default(Lit::Enum("green".into())),
                Comp::new("u", Ty::int()).default(Lit::Int(1500)),
            ]),
        )
        // DEFAULT kinds that generate compilable code only since 66a49a3 / cce119f (OCTET STRING, escapes, empty)
        .def(
            "Tdefaults2",
            Ty::seq(vec![
                Comp::new("o", Ty::oct(Size::Any)).default(Lit::Hex(vec![0xDE, 0xAD])),
                Comp::new("oe", Ty::oct(Size::Range(0, Some(4), false))).default(Lit::Hex(vec![])),
                Comp::new("s", Ty::string(Charset::Ia5, Size::Any)).default(Lit::Str("a\\b".into())),
                Comp::new("t", Ty::string(Charset::Utf8, Size::Any)).default(Lit::Str(String::new())),
                Comp::new("z", Ty::Bool),
            ]),
        )
        // an inline element type of a top-level list has its own name since 736ee19
        .def("Tsoinlenum", Ty::seq_of(Size::Range(0, Some(3), false), Ty::enum_n(3)))
        .def("Tsoinlseq", Ty::seq_of(Size::Any, Ty::seq(vec![Comp::new("a", Ty::Bool), Comp::new("b", Ty::int_r(0, 7)).opt()])))
        // a SET with explicit tags whose extension additions have SMALLER tags than the root components:
        // root components (canonical order) come first, the additions after them
        .def(
            "Tsetxt",
            Ty::Seq {
                set: true,
                comps: vec![
                    Comp::new("a", Ty::int_r(0, 7)).tagged(Tag::c(7)),
                    Comp::new("b", Ty::Bool).tagged(Tag::c(5)),
                    Comp::new("c", Ty::string(Charset::Utf8, Size::Any)).tagged(Tag::c(1)),
                    Comp::new("d", Ty::int_r(0, 3)).tagged(Tag::c(2)).opt(),
                ],
                ext_after: Some(2),
            },
        )
        // an extensible CHOICE whose extension alternatives have empty encodings (NULL, single-value INTEGER)
        .def("Tchxnull", Ty::Choice { alts: vec![Alt::new("a", Ty::Bool), Alt::new("b", Ty::Null), Alt::new("c", Ty::int_r(7, 7)), Alt::new("d", Ty::int_r(0, 7))], ext_after: Some(1) })
        // a CHOICE with a list as alternative, at the root and as a component between two others
        .def("Tchlist", Ty::Choice { alts: vec![Alt::new("l", Ty::seq_of(Size::Any, Ty::int_r(0, 255))), Alt::new("n", Ty::Null), Alt::new("b", Ty::Bool)], ext_after: None })
        .def("Tseqchlist", Ty::seq(vec![Comp::new("pre", Ty::Bool), Comp::new("c", Ty::r("Tchlist")), Comp::new("post", Ty::Bool)]))
        // an extensible SEQUENCE / SET whose ROOT has mandatory components of referenced types: a plain SEQUENCE
        // (no OPTIONAL, no marker), a named INTEGER and a named list
        .def("Tplain", Ty::seq(vec![Comp::new("p", Ty::int_r(0, 7)), Comp::new("q", Ty::Bool)]))
        .def("Tsmall", Ty::int_r(0, 255))
        .def(
            "Textref",
            Ty::Seq {
                set: false,
                comps: vec![Comp::new("s", Ty::r("Tplain")), Comp::new("i", Ty::r("Tsmall")), Comp::new("o", Ty::Bool).opt(), Comp::new("x", Ty::Bool), Comp::new("y", Ty::int_r(0, 7)).opt()],
                ext_after: Some(3),
            },
        )
        .def(
            "Textrefset",
            Ty::Seq { set: true, comps: vec![Comp::new("i", Ty::r("Tsmall")), Comp::new("s", Ty::r("Tplain")), Comp::new("x", Ty::r("Tplain"))], ext_after: Some(2) },
        )
        // a BIT STRING of more than 16 bits, not a multiple of 8, starting on an octet boundary and FOLLOWED by
        // non-zero bits: the decoded value must not pick up its neighbour's bits in its last octet
        .def("Tbits21then", Ty::seq(vec![Comp::new("b", Ty::bits(Size::Fix(21, false))), Comp::new("t", Ty::Bool), Comp::new("i", Ty::int_r(0, 255))]))
        .def("Tbits70then", Ty::seq(vec![Comp::new("b", Ty::bits(Size::Fix(70, false))), Comp::new("i", Ty::int_r(0, 255))]))
        .def("Tbitsanythen", Ty::seq(vec![Comp::new("b", Ty::bits(Size::Range(17, Some(23), false))), Comp::new("i", Ty::int_r(0, 255))]))
        // zero-bit mandatory ROOT components (NULL, a single-value INTEGER, an empty SEQUENCE) in front of the extension
        // additions: every component, also one without bits, counts when the additions' header is placed
        .def("Tnullroot", Ty::Seq { set: false, comps: vec![Comp::new("n", Ty::Null), Comp::new("x", Ty::Bool), Comp::new("a", Ty::int_r(0, 7)), Comp::new("b", Ty::Bool).opt()], ext_after: Some(2) })
        .def("Tfixroot", Ty::Seq { set: false, comps: vec![Comp::new("v", Ty::int_r(5, 5)), Comp::new("x", Ty::int_r(0, 7)), Comp::new("a", Ty::Bool), Comp::new("b", Ty::int_r(0, 3)).opt()], ext_after: Some(2) })
        .def("Tnulloptroot", Ty::Seq { set: true, comps: vec![Comp::new("n", Ty::Null).opt(), Comp::new("x", Ty::Bool), Comp::new("a", Ty::int_r(0, 7))], ext_after: Some(2) })
        // every kind of zero-bit mandatory root component in front of extension additions
        .def("Tempty", Ty::seq(vec![]))
        .def(
            "Tzerobits",
            Ty::Seq {
                set: false,
                comps: vec![
                    Comp::new("e", Ty::r("Tempty")),
                    Comp::new("o", Ty::oct(Size::Fix(0, false))),
                    Comp::new("en", Ty::enum_n(1)),
                    Comp::new("s", Ty::string(Charset::Ia5, Size::Fix(0, false))),
                    Comp::new("l", Ty::seq_of(Size::Fix(0, false), Ty::Bool)),
                    Comp::new("x", Ty::Bool),
                    Comp::new("a", Ty::int_r(0, 7)),
                    Comp::new("b", Ty::Bool).opt(),
                ],
                ext_after: Some(6),
            },
        )
        // extension indices of 64 and more (normally small number in its long form) on generated types
        .def("Tenumx70", Ty::Enum { root: vec![("r0".into(), None), ("r1".into(), None)], ext: Some((0..70).map(|i| (format!("x{i}"), None)).collect()) })
        .def("Tchoicex70", Ty::Choice { alts: std::iter::once(Alt::new("r0", Ty::Bool)).chain((0..70).map(|i| Alt::new(&format!("x{i}"), Ty::int_r(0, 7)))).collect(), ext_after: Some(1) })
        .def("Tref1", Ty::r("Tref2"))
        .def("Tref2", Ty::r("Tinner"))
        .def("Tinline", Ty::seq(vec![Comp::new("pick", Ty::choice(vec![Alt::new("i", Ty::int_r(0, 7)), Alt::new("s", ia5(Size::Fix(2, false)))])), Comp::new("en", Ty::enum_n(3)).opt(), Comp::new("sq", Ty::seq(vec![Comp::new("z", Ty::Bool)]))]))
        .def(
            "Tmix",
            Ty::Seq {
                set: true,
                comps: vec![
                    Comp::new("o", Ty::oct(Size::Range(0, Some(3), false))).opt(),
                    Comp::new("b", Ty::bits(Size::Fix(5, false))),
                    Comp::new("u", Ty::string(Charset::Utf8, Size::Any)).opt(),
                    Comp::new("i", Ty::int()),
                ],
                ext_after: None,
            },
        );
    out.push(ZooModule { id: "contq".into(), group: "cont", quick: true, module: m });
    // --- thorough containers: SEQUENCE OF every leaf kind with three size forms, CHOICE widths
    // (an inline ENUMERATED as element of a top-level SEQUENCE OF generates two items of the same name -
    //  a C09 finding; the zoo references a named enumeration instead so that it still compiles)
    let mut m = Module::new("Zcontt")
        .def("Tinner", Ty::Seq { set: false, comps: vec![Comp::new("a", Ty::int_r(0, 7)), Comp::new("b", Ty::Bool).opt()], ext_after: Some(2) })
        .def("Tenum3", Ty::enum_n(3));
    let elems: Vec<(&str, Ty)> = vec![
        ("bool", Ty::Bool),
        ("null", Ty::Null),
        ("i3", Ty::int_r(0, 7)),
        ("iun", Ty::int()),
        ("ixt", Ty::int_range(IntRange::lit(0, 7).ext())),
        ("en", Ty::r("Tenum3")),
        ("oct", Ty::oct(Size::Range(0, Some(2), false))),
        ("bit", Ty::bits(Size::Fix(3, false))),
        ("ia5", ia5(Size::Range(0, Some(2), false))),
        ("utf", Ty::string(Charset::Utf8, Size::Any)),
        ("num", Ty::string(Charset::Numeric, Size::Fix(2, false))),
        ("seq", Ty::r("Tinner")),
    ];
    for (en, et) in &elems {
        for (sn, size) in [("any", Size::Any), ("r0to3", Size::Range(0, Some(3), false)), ("f2", Size::Fix(2, false)), ("r1to2x", Size::Range(1, Some(2), true))] {
            m = m.def(&format!("Tso{en}{sn}"), Ty::seq_of(size, et.clone()));
        }
    }
    for n in [1usize, 2, 3, 4, 5, 8, 9] {
        let alts: Vec<Alt> = (0..n).map(|i| Alt::new(&format!("a{i}"), if i % 2 == 0 { Ty::int_r(0, 7) } else { Ty::Bool })).collect();
        m = m.def(&format!("Tch{n}"), Ty::choice(alts.clone()));
        for k in [0usize, 1, 2] {
            let mut all = alts.clone();
            for j in 0..k {
                all.push(Alt::new(&format!("x{j}"), if j == 0 { Ty::int_r(0, 255) } else { Ty::oct(Size::Range(0, Some(3), false)) }));
            }
            m = m.def(&format!("Tch{n}x{k}"), Ty::Choice { alts: all, ext_after: Some(n) });
        }
    }
    out.push(ZooModule { id: "contt".into(), group: "cont", quick: false, module: m });
}

/// The 12-message alphabet of the C01 history search (DESIGN.md Appendix C).
pub fn history_module() -> Module {
    Module::new("Zhist")
        .def("Tbool", Ty::Bool)
        .def("Tint3", Ty::int_r(0, 7))
        .def("Tenumx", Ty::Enum { root: vec![("a".into(), None), ("b".into(), None)], ext: Some(vec![("c".into(), None)]) })
        .def("Tbits13", Ty::bits(Size::Fix(13, false)))
        .def("Tnull", Ty::Null)
        .def("Tintun", Ty::int_range(IntRange { lo: Bound::Min, hi: Bound::Lit(5), ext: false }))
        .def("Tia5f5", Ty::string(Charset::Ia5, Size::Fix(5, false)))
        .def("Tutf8", Ty::string(Charset::Utf8, Size::Any))
        .def("Tsobool", Ty::seq_of(Size::Any, Ty::Bool))
        .def("Tseqx", Ty::Seq { set: false, comps: vec![Comp::new("a", Ty::int_r(0, 7)), Comp::new("c", Ty::int_r(0, 255)).opt()], ext_after: Some(1) })
        .def("Tchx", Ty::Choice { alts: vec![Alt::new("a", Ty::Bool), Alt::new("b", Ty::int_r(0, 255))], ext_after: Some(1) })
        .def("Toct", Ty::oct(Size::Any))
}

pub fn zoo() -> Vec<ZooModule> {
    let mut out = vec![];
    leaf_modules(&mut out);
    shape_modules(&mut out);
    container_modules(&mut out);
    out.push(ZooModule { id: "hist".into(), group: "hist", quick: true, module: history_module() });
    crate::zoo_c05::modules(&mut out);
    crate::zoo_c16::modules(&mut out);
    out
}

pub mod refbits;
pub mod report;
pub mod subject;
pub mod shard;
pub mod refper;
pub mod schema;
pub mod sweep;

pub use vbase::{refbits, schema, subject, values, zoo_c05, zoo_c16, zoo_def};
pub mod report;
pub mod shard;
pub mod refper;
pub mod sweep;
pub mod refper_vectors;

pub mod refbits;
pub mod report;
pub mod subject;
pub mod shard;

//! `refper` — an independent X.691 (08/2015) UNALIGNED BASIC-PER reference encoder over the
//! harness' abstract schema/value model, written clause by clause (DESIGN.md Appendix A).
//! It shares no code with the subject. It returns the bit string and a labelled field list so
//! that a mismatch can be reported as "first differing field".

use crate::schema::*;

#[derive(Default, Clone, Debug)]
pub struct Sink {
    pub bits: Vec<bool>,
    pub labels: Vec<(usize, String)>,
    ctx: Vec<String>,
}

impl Sink {
    pub fn new() -> Self {
        Self::default()
    }
    pub fn label(&mut self, s: &str) {
        let full = if self.ctx.is_empty() { s.to_string() } else { format!("{}/{}", self.ctx.join("/"), s) };
        self.labels.push((self.bits.len(), full));
    }
    pub fn push_ctx(&mut self, s: &str) {
        self.ctx.push(s.to_string());
    }
    pub fn pop_ctx(&mut self) {
        self.ctx.pop();
    }
    pub fn bit(&mut self, b: bool) {
        self.bits.push(b);
    }
    /// `n` low bits of `v`, most significant first
    pub fn uint(&mut self, v: u128, n: u32) {
        for i in (0..n).rev() {
            self.bits.push((v >> i) & 1 == 1);
        }
    }
    pub fn octets(&mut self, o: &[u8]) {
        for b in o {
            self.uint(*b as u128, 8);
        }
    }
    pub fn label_at(&self, bit: usize) -> String {
        let mut best = "<start>".to_string();
        for (p, l) in &self.labels {
            if *p <= bit {
                best = l.clone();
            } else {
                break;
            }
        }
        best
    }
    pub fn pack(&self) -> Vec<u8> {
        crate::refbits::pack(&self.bits)
    }
}

/// minimum n with 2^n >= r (r >= 1)
pub fn width_for_range(r: u128) -> u32 {
    if r <= 1 {
        0
    } else {
        128 - (r - 1).leading_zeros()
    }
}

// ---- 11.5 constrained whole number (UNALIGNED: minimal bit-field for any range) -------------
pub fn constrained_whole(s: &mut Sink, lb: i128, ub: i128, v: i128) {
    assert!(lb <= v && v <= ub, "refper: value {v} outside {lb}..{ub}");
    let range = (ub - lb + 1) as u128;
    s.uint((v - lb) as u128, width_for_range(range));
}

/// minimum octets (>=1) of the non-negative binary integer d
fn min_octets_unsigned(d: u128) -> Vec<u8> {
    let mut o = d.to_be_bytes().to_vec();
    while o.len() > 1 && o[0] == 0 {
        o.remove(0);
    }
    o
}

/// minimum octets (>=1) of the 2's complement binary integer v
fn min_octets_signed(v: i128) -> Vec<u8> {
    let mut o = v.to_be_bytes().to_vec();
    while o.len() > 1 && ((o[0] == 0 && o[1] & 0x80 == 0) || (o[0] == 0xFF && o[1] & 0x80 != 0)) {
        o.remove(0);
    }
    o
}

// ---- 11.9.3.5-8 unconstrained length determinant, single (non fragmenting) step --------------
/// Writes the length header for `remaining` items; returns how many items follow this header and
/// whether another header must follow.
pub fn general_length_step(s: &mut Sink, remaining: u64) -> (u64, bool) {
    if remaining <= 127 {
        s.bit(false);
        s.uint(remaining as u128, 7);
        (remaining, false)
    } else if remaining < 16384 {
        s.bit(true);
        s.bit(false);
        s.uint(remaining as u128, 14);
        (remaining, false)
    } else {
        let m = (remaining / 16384).min(4);
        s.bit(true);
        s.bit(true);
        s.uint(m as u128, 6);
        (m * 16384, true)
    }
}

/// 11.9: length determinant followed by the items (fragmented if necessary).
/// `lb`/`ub` are the PER-visible effective size bounds (`ub` None = unbounded).
pub fn length_and_items(s: &mut Sink, n: u64, lb: u64, ub: Option<u64>, items: &mut dyn FnMut(&mut Sink, u64, u64)) {
    length_and_items_q(s, n, lb, ub, false, false, items)
}

pub fn length_and_items_q(
    s: &mut Sink,
    n: u64,
    lb: u64,
    ub: Option<u64>,
    quirk_no_fragmentation: bool,
    quirk_fixed_ge64k: bool,
    items: &mut dyn FnMut(&mut Sink, u64, u64),
) {
    if quirk_fixed_ge64k && ub == Some(lb) && lb >= 65536 {
        items(s, 0, n);
        return;
    }
    if quirk_no_fragmentation && !matches!(ub, Some(u) if u < 65536) && n >= 16384 {
        s.label("length (first fragment header only)");
        let _ = general_length_step(s, n);
        items(s, 0, n);
        return;
    }
    match ub {
        Some(ub) if ub < 65536 => {
            // 11.9.4.1 / 11.9.3.3: constrained whole number, no fragmentation
            if lb != ub {
                s.label("length (constrained)");
                constrained_whole(s, lb as i128, ub as i128, n as i128);
            }
            items(s, 0, n);
        }
        _ => {
            let mut done = 0u64;
            loop {
                s.label(if done == 0 { "length" } else { "length (next fragment)" });
                let (take, more) = general_length_step(s, n - done);
                items(s, done, take);
                done += take;
                if !more {
                    break;
                }
            }
        }
    }
}

// ---- 11.6 normally small non-negative whole number ------------------------------------------
pub fn normally_small(s: &mut Sink, n: u64) {
    if n <= 63 {
        s.bit(false);
        s.uint(n as u128, 6);
    } else {
        s.bit(true);
        semi_constrained(s, 0, n as i128);
    }
}

// ---- 11.7 semi-constrained whole number (with its length, 13.2.6 / 11.9) ---------------------
pub fn semi_constrained(s: &mut Sink, lb: i128, v: i128) {
    assert!(v >= lb);
    let o = min_octets_unsigned((v - lb) as u128);
    length_and_items(s, o.len() as u64, 0, None, &mut |s, a, c| s.octets(&o[a as usize..(a + c) as usize]));
}

// ---- 11.8 unconstrained whole number ---------------------------------------------------------
pub fn unconstrained(s: &mut Sink, v: i128) {
    let o = min_octets_signed(v);
    length_and_items(s, o.len() as u64, 0, None, &mut |s, a, c| s.octets(&o[a as usize..(a + c) as usize]));
}

// ---- 11.9.3.4 normally small length (n >= 1) -------------------------------------------------
pub fn normally_small_length(s: &mut Sink, n: u64) {
    assert!(n >= 1);
    if n <= 64 {
        s.bit(false);
        s.uint((n - 1) as u128, 6);
    } else {
        s.bit(true);
        let (take, more) = general_length_step(s, n);
        assert!(take == n && !more, "refper: more than 16K extension additions is outside the profile");
    }
}

// ---- 14: enumeration / 23: choice index ------------------------------------------------------
pub fn index(s: &mut Sink, root_count: u64, extensible: bool, root_index: Option<u64>, ext_index: Option<u64>) {
    if extensible {
        s.bit(ext_index.is_some());
    }
    if let Some(e) = ext_index {
        normally_small(s, e);
    } else {
        let i = root_index.unwrap();
        assert!(i < root_count);
        constrained_whole(s, 0, root_count as i128 - 1, i as i128);
    }
}

// ---- 11.2 open type ---------------------------------------------------------------------------
pub fn open_type(s: &mut Sink, inner: &Sink) {
    let mut o = inner.pack();
    if o.is_empty() {
        o.push(0); // 11.1: an empty encoding is replaced by a single zero octet
    }
    s.label("open-type length");
    let inner_labels = inner.labels.clone();
    let mut first = true;
    length_and_items(s, o.len() as u64, 0, None, &mut |s, a, c| {
        if first {
            first = false;
            let base = s.bits.len();
            for (p, l) in &inner_labels {
                s.labels.push((base + p, format!("open-type:{l}")));
            }
        }
        s.octets(&o[a as usize..(a + c) as usize])
    });
}

// ---- tags (X.680 8.6, 25.x, 29.x; automatic tagging 25.7 / 29.5) ------------------------------

pub fn universal_tag(m: &Module, ty: &Ty) -> Tag {
    match ty {
        Ty::Bool => Tag::u(1),
        Ty::Int { .. } => Tag::u(2),
        Ty::BitStr { .. } => Tag::u(3),
        Ty::OctStr { .. } => Tag::u(4),
        Ty::Null => Tag::u(5),
        Ty::Enum { .. } => Tag::u(10),
        Ty::Str { cs, .. } => match cs {
            Charset::Utf8 => Tag::u(12),
            Charset::Numeric => Tag::u(18),
            Charset::Printable => Tag::u(19),
            Charset::Ia5 => Tag::u(22),
            Charset::Visible => Tag::u(26),
        },
        Ty::Seq { set, .. } | Ty::SeqOf { set, .. } => {
            if *set { Tag::u(17) } else { Tag::u(16) }
        }
        Ty::Choice { alts, ext_after } => {
            // untagged CHOICE: ordered as though it had the smallest tag of its RootAlternativeTypeList
            // (X.691 20.2 refining X.680 8.6; nested untagged choices recurse through universal_tag)
            let nroot = ext_after.unwrap_or(alts.len()).min(alts.len());
            alt_tags(m, alts)[..nroot].iter().copied().min().expect("CHOICE with no root alternative")
        }
        Ty::Ref(n) => {
            let d = m.find(n).expect("reference");
            d.tag.unwrap_or_else(|| universal_tag(m, &d.ty))
        }
    }
}

pub fn comp_tags(m: &Module, comps: &[Comp]) -> Vec<Tag> {
    if comps.iter().all(|c| c.tag.is_none()) {
        (0..comps.len() as u64).map(Tag::c).collect()
    } else {
        comps.iter().map(|c| c.tag.unwrap_or_else(|| universal_tag(m, &c.ty))).collect()
    }
}

pub fn alt_tags(m: &Module, alts: &[Alt]) -> Vec<Tag> {
    if alts.iter().all(|a| a.tag.is_none()) {
        (0..alts.len() as u64).map(Tag::c).collect()
    } else {
        alts.iter().map(|a| a.tag.unwrap_or_else(|| universal_tag(m, &a.ty))).collect()
    }
}

/// X.680 20.3-20.5: the numeric values of the items (explicit, else successive unused non-negative).
pub fn enum_values(items_root: &[(String, Option<u64>)], items_ext: &[(String, Option<u64>)]) -> (Vec<u64>, Vec<u64>) {
    let mut used: Vec<u64> = items_root.iter().filter_map(|x| x.1).collect();
    let mut next = 0u64;
    let mut root = vec![];
    for (_, v) in items_root {
        match v {
            Some(v) => root.push(*v),
            None => {
                while used.contains(&next) {
                    next += 1;
                }
                root.push(next);
                used.push(next);
            }
        }
    }
    let mut ext = vec![];
    for (_, v) in items_ext {
        match v {
            Some(v) => {
                ext.push(*v);
                used.push(*v);
            }
            None => {
                // X.680 20.6: additional items continue above everything already assigned
                let mut n = used.iter().max().map_or(0, |m| m + 1);
                while used.contains(&n) {
                    n += 1;
                }
                ext.push(n);
                used.push(n);
            }
        }
    }
    (root, ext)
}

/// Encoding order of the root components of a SEQUENCE (textual) or SET (canonical tag order).
pub fn root_order(m: &Module, set: bool, comps: &[Comp], root_idx: &[usize]) -> Vec<usize> {
    let mut order: Vec<usize> = root_idx.to_vec();
    if set {
        let tags = comp_tags(m, comps);
        order.sort_by_key(|i| tags[*i]);
    }
    order
}

// ---- quirk models (DESIGN.md 3.8) -------------------------------------------------------------
// Each quirk reproduces one RECORDED, systematic defect of the subject (known_findings.json). The
// strict reference never uses them. A check compares: observed == strict => pass; observed ==
// reference with a (minimal) set of applicable recorded quirks => KNOWN-FINDING; else VIOLATION.

#[derive(Clone, Copy, Debug, PartialEq, Eq, PartialOrd, Ord, Hash)]
pub enum Quirk {
    /// INTEGER (a..MAX): written as a constrained whole number over a..i64::MAX (up to 63 bits)
    SemiConstrainedAs63Bit,
    /// ENUMERATED index = declaration position instead of rank of the enumeration value
    EnumIndexInDeclarationOrder,
    /// CHOICE index = declaration position instead of rank of the alternative's tag
    ChoiceIndexInDeclarationOrder,
    /// DEFAULT extension addition is written inline instead of as an open type
    DefaultAdditionNotOpenType,
    /// an extension addition with an empty encoding (NULL, empty SEQUENCE) gets length 0, no octet
    EmptyOpenTypeLengthZero,
    /// SEQUENCE OF / SET OF / known-multiplier strings of >= 16K items: first fragment header, then
    /// all items, no further headers
    NoListFragmentation,
    /// fixed size >= 64K: no length determinant at all, items unfragmented
    FixedSizeGe64KNoLength,
    /// `...` before the first component is treated as if it came after the first component
    MarkerBeforeFirstAsAfterFirst,
    /// a u64 value above i64::MAX is written as the negative i64 with the same bits
    U64AboveI64MaxWrapsNegative,
    /// INTEGER (0..MAX) is parsed as an unconstrained INTEGER (2's complement instead of semi-constrained)
    ZeroToMaxAsUnconstrained,
    /// INTEGER (MIN..b): the missing lower bound is taken as 0 (constrained 0..b) instead of "no lower bound"
    MinLowerBoundAsZero,
    /// READER side only (the written bits are conformant): an open type (extension addition, CHOICE extension
    /// alternative) of >= 16384 octets is written fragmented (X.691 11.9.3.8) but read as one unfragmented block
    FragmentedOpenTypeNotReadable,
}

pub const ALL_QUIRKS: [Quirk; 12] = [
    Quirk::SemiConstrainedAs63Bit,
    Quirk::EnumIndexInDeclarationOrder,
    Quirk::ChoiceIndexInDeclarationOrder,
    Quirk::DefaultAdditionNotOpenType,
    Quirk::EmptyOpenTypeLengthZero,
    Quirk::NoListFragmentation,
    Quirk::FixedSizeGe64KNoLength,
    Quirk::MarkerBeforeFirstAsAfterFirst,
    Quirk::U64AboveI64MaxWrapsNegative,
    Quirk::ZeroToMaxAsUnconstrained,
    Quirk::MinLowerBoundAsZero,
    Quirk::FragmentedOpenTypeNotReadable,
];

impl Quirk {
    pub fn name(&self) -> &'static str {
        match self {
            Quirk::SemiConstrainedAs63Bit => "semi-constrained-integer-as-63-bit-field",
            Quirk::EnumIndexInDeclarationOrder => "enum-index-in-declaration-order",
            Quirk::ChoiceIndexInDeclarationOrder => "choice-index-in-declaration-order",
            Quirk::DefaultAdditionNotOpenType => "default-extension-addition-not-open-type",
            Quirk::EmptyOpenTypeLengthZero => "empty-open-type-length-zero",
            Quirk::NoListFragmentation => "no-fragmentation-of-lists-and-character-strings",
            Quirk::FixedSizeGe64KNoLength => "fixed-size-ge64K-has-no-length-determinant",
            Quirk::MarkerBeforeFirstAsAfterFirst => "marker-before-first-component-read-as-after-first",
            Quirk::U64AboveI64MaxWrapsNegative => "u64-above-i64max-wraps-negative",
            Quirk::ZeroToMaxAsUnconstrained => "integer-0-to-max-read-as-unconstrained",
            Quirk::MinLowerBoundAsZero => "integer-min-lower-bound-read-as-zero",
            Quirk::FragmentedOpenTypeNotReadable => "fragmented-open-type-not-readable",
        }
    }
}

pub type Quirks = std::collections::BTreeSet<Quirk>;

pub fn no_quirks() -> Quirks {
    Quirks::new()
}

// ---- the type-directed encoder ---------------------------------------------------------------

#[derive(Debug)]
pub struct RefError(pub String);

fn size_header(s: &mut Sink, size: &Size, n: u64) -> Result<(u64, Option<u64>), RefError> {
    // returns the (lb, ub) to use for the length determinant
    if size.ext() {
        let out = !size.contains(n);
        s.label("size-ext-bit");
        s.bit(out);
        if out {
            return Ok((0, None));
        }
    } else if !size.contains(n) {
        return Err(RefError(format!("size {n} outside non-extensible constraint {size:?}")));
    }
    Ok((size.lb(), size.ub()))
}

pub fn encode(m: &Module, ty: &Ty, v: &Value, s: &mut Sink) -> Result<(), RefError> {
    encode_q(m, ty, v, s, &no_quirks())
}

pub fn encode_q(m: &Module, ty: &Ty, v: &Value, s: &mut Sink, q: &Quirks) -> Result<(), RefError> {
    let ty = m.resolve(ty);
    match (ty, v) {
        (Ty::Bool, Value::Bool(b)) => {
            s.label("BOOLEAN");
            s.bit(*b);
        }
        (Ty::Null, Value::Null) => {}
        (Ty::Int { range, .. }, Value::Int(i)) => {
            let (lb, ub, ext) = match range {
                None => (None, None, false),
                Some(r) => (r.lb(), r.ub(), r.ext),
            };
            let (mut lb, mut ub) = (lb, ub);
            if q.contains(&Quirk::ZeroToMaxAsUnconstrained) && lb == Some(0) && (ub.is_none() || ub == Some(i64::MAX)) && !ext {
                lb = None;
                ub = None;
            }
            if q.contains(&Quirk::MinLowerBoundAsZero) && lb.is_none() && matches!(range, Some(r) if r.lo == Bound::Min) && ub.is_some() {
                lb = Some(0);
            }
            // quirk: the value travels through to_i64 first, whatever the constraint is
            let wrapped;
            let i = if q.contains(&Quirk::U64AboveI64MaxWrapsNegative) && *i > i64::MAX as i128 {
                wrapped = *i - (1i128 << 64);
                &wrapped
            } else {
                i
            };
            let in_root = lb.map_or(true, |l| *i >= l as i128) && ub.map_or(true, |u| *i <= u as i128);
            if ext {
                s.label("int-ext-bit");
                s.bit(!in_root);
                if !in_root {
                    s.label("INTEGER (unconstrained, outside root)");
                    unconstrained(s, *i);
                    return Ok(());
                }
            } else if !in_root {
                return Err(RefError(format!("integer {i} outside non-extensible range")));
            }
            match (lb, ub) {
                (Some(l), Some(u)) => {
                    s.label("INTEGER (constrained)");
                    constrained_whole(s, l as i128, u as i128, *i)
                }
                (Some(l), None) if q.contains(&Quirk::SemiConstrainedAs63Bit) => {
                    s.label("INTEGER (quirk: constrained over lb..i64::MAX)");
                    if *i > i64::MAX as i128 {
                        return Err(RefError("quirk model: value above i64::MAX".into()));
                    }
                    constrained_whole(s, l as i128, i64::MAX as i128, *i)
                }
                (Some(l), Some(u)) if l > u => return Err(RefError("empty range".into())),
                (Some(l), None) => {
                    s.label("INTEGER (semi-constrained)");
                    semi_constrained(s, l as i128, *i)
                }
                (None, _) => {
                    s.label("INTEGER (unconstrained)");
                    unconstrained(s, *i)
                }
            }
        }
        (Ty::Enum { root, ext }, Value::Enum(idx)) => {
            let (rv, _ev) = enum_values(root, ext.as_deref().unwrap_or(&[]));
            s.label("ENUMERATED index");
            if *idx < root.len() {
                // index = rank of this item's value among the root values
                let my = rv[*idx];
                let rank = if q.contains(&Quirk::EnumIndexInDeclarationOrder) { *idx as u64 } else { rv.iter().filter(|x| **x < my).count() as u64 };
                index(s, root.len() as u64, ext.is_some(), Some(rank), None);
            } else {
                let e = ext.as_ref().ok_or_else(|| RefError("enum index beyond root of non-extensible type".into()))?;
                let k = idx - root.len();
                if k >= e.len() {
                    return Err(RefError("enum index beyond additions".into()));
                }
                index(s, root.len() as u64, true, None, Some(k as u64));
            }
        }
        (Ty::BitStr { size, .. }, Value::Bits(b)) => {
            let n = b.len() as u64;
            let (lb, ub) = size_header(s, size, n)?;
            if ub == Some(0) {
                return Ok(());
            }
            s.label("BIT STRING");
            length_and_items_q(s, n, lb, ub, false, q.contains(&Quirk::FixedSizeGe64KNoLength), &mut |s, a, c| {
                s.label("bits");
                s.bits.extend_from_slice(&b[a as usize..(a + c) as usize])
            });
        }
        (Ty::OctStr { size, .. }, Value::Bytes(b)) => {
            let n = b.len() as u64;
            let (lb, ub) = size_header(s, size, n)?;
            if ub == Some(0) {
                return Ok(());
            }
            s.label("OCTET STRING");
            length_and_items_q(s, n, lb, ub, false, q.contains(&Quirk::FixedSizeGe64KNoLength), &mut |s, a, c| {
                s.label("octets");
                s.octets(&b[a as usize..(a + c) as usize])
            });
        }
        (Ty::Str { cs: Charset::Utf8, .. }, Value::Str(st)) => {
            // not a known-multiplier type: SIZE is not PER-visible; unconstrained octets
            let o = st.as_bytes();
            s.label("UTF8String");
            length_and_items(s, o.len() as u64, 0, None, &mut |s, a, c| {
                s.label("utf8 octets");
                s.octets(&o[a as usize..(a + c) as usize])
            });
        }
        (Ty::Str { cs, size, .. }, Value::Str(st)) => {
            let alphabet = cs.alphabet();
            let chars: Vec<char> = st.chars().collect();
            for c in &chars {
                if !alphabet.contains(c) {
                    return Err(RefError(format!("character {c:?} not permitted in {cs:?}")));
                }
            }
            let nalpha = alphabet.len() as u128;
            let b = width_for_range(nalpha);
            let largest = *alphabet.last().unwrap() as u32;
            let by_value = (largest as u128) < (1u128 << b);
            let n = chars.len() as u64;
            let (lb, ub) = size_header(s, size, n)?;
            if ub == Some(0) {
                return Ok(());
            }
            s.label(cs.asn());
            length_and_items_q(s, n, lb, ub, q.contains(&Quirk::NoListFragmentation), q.contains(&Quirk::FixedSizeGe64KNoLength), &mut |s, a, c| {
                s.label("characters");
                for ch in &chars[a as usize..(a + c) as usize] {
                    let code = if by_value { *ch as u128 } else { alphabet.iter().position(|x| x == ch).unwrap() as u128 };
                    s.uint(code, b);
                }
            });
        }
        (Ty::SeqOf { size, inner, .. }, Value::List(items)) => {
            let n = items.len() as u64;
            let (lb, ub) = size_header(s, size, n)?;
            s.label("SEQUENCE/SET OF");
            let mut err = None;
            length_and_items_q(s, n, lb, ub, q.contains(&Quirk::NoListFragmentation), q.contains(&Quirk::FixedSizeGe64KNoLength), &mut |s, a, c| {
                for (k, it) in items[a as usize..(a + c) as usize].iter().enumerate() {
                    s.push_ctx(&format!("[{}]", a as usize + k));
                    if let Err(e) = encode_q(m, inner, it, s, q) {
                        err = Some(e);
                    }
                    s.pop_ctx();
                }
            });
            if let Some(e) = err {
                return Err(e);
            }
        }
        (Ty::SeqOf { size, inner, .. }, Value::Bytes(b)) => {
            let items: Vec<Value> = b.iter().map(|x| Value::Int(*x as i128)).collect();
            return encode_q(m, &Ty::SeqOf { set: false, size: *size, paren: true, inner: inner.clone() }, &Value::List(items), s, q);
        }
        (Ty::Seq { set, comps, ext_after }, Value::Seq(vals)) => {
            if vals.len() != comps.len() {
                return Err(RefError("component count mismatch".into()));
            }
            let mut nroot = ext_after.unwrap_or(comps.len());
            if q.contains(&Quirk::MarkerBeforeFirstAsAfterFirst) && *ext_after == Some(0) && !comps.is_empty() {
                nroot = 1;
            }
            let root_idx: Vec<usize> = (0..nroot).collect();
            let add_idx: Vec<usize> = (nroot..comps.len()).collect();
            // is component i to be encoded?
            let present = |i: usize| -> Result<bool, RefError> {
                match (&comps[i].presence, &vals[i]) {
                    (Presence::Mandatory, None) if i < nroot => Err(RefError(format!("mandatory root component {} absent", comps[i].name))),
                    (_, None) => Ok(false),
                    (Presence::Default(l), Some(v)) => Ok(lit_value(m, &comps[i].ty, l).normalize() != v.normalize()),
                    (_, Some(_)) => Ok(true),
                }
            };
            let any_add = {
                let mut a = false;
                for i in &add_idx {
                    a |= present(*i)?;
                }
                a
            };
            if ext_after.is_some() {
                s.label("ext-bit");
                s.bit(any_add);
            }
            let order = root_order(m, *set, comps, &root_idx);
            for i in &order {
                if comps[*i].presence != Presence::Mandatory {
                    s.label(&format!("preamble[{}]", comps[*i].name));
                    s.bit(present(*i)?);
                }
            }
            for i in &order {
                if present(*i)? {
                    s.push_ctx(&comps[*i].name);
                    let r = encode_q(m, &comps[*i].ty, vals[*i].as_ref().unwrap(), s, q);
                    s.pop_ctx();
                    r?;
                }
            }
            if any_add {
                s.label("addition count");
                normally_small_length(s, add_idx.len() as u64);
                for i in &add_idx {
                    s.label(&format!("addition-bitmap[{}]", comps[*i].name));
                    s.bit(present(*i)?);
                }
                for i in &add_idx {
                    if present(*i)? {
                        s.push_ctx(&comps[*i].name);
                        if q.contains(&Quirk::DefaultAdditionNotOpenType) && matches!(comps[*i].presence, Presence::Default(_)) {
                            s.label("addition (quirk: inline, not an open type)");
                            let r = encode_q(m, &comps[*i].ty, vals[*i].as_ref().unwrap(), s, q);
                            s.pop_ctx();
                            r?;
                            continue;
                        }
                        let mut inner = Sink::new();
                        encode_q(m, &comps[*i].ty, vals[*i].as_ref().unwrap(), &mut inner, q)?;
                        if q.contains(&Quirk::EmptyOpenTypeLengthZero) && inner.bits.is_empty() {
                            s.label("open-type length (quirk: 0 for an empty encoding)");
                            s.uint(0, 8);
                        } else {
                            open_type(s, &inner);
                        }
                        s.pop_ctx();
                    }
                }
            }
        }
        (Ty::Choice { alts, ext_after }, Value::Choice(idx, inner)) => {
            let nroot = ext_after.unwrap_or(alts.len());
            if *idx >= alts.len() {
                return Err(RefError("alternative index out of range".into()));
            }
            s.label("CHOICE index");
            if *idx < nroot {
                let tags = alt_tags(m, alts);
                let my = tags[*idx];
                let rank = if q.contains(&Quirk::ChoiceIndexInDeclarationOrder) { *idx as u64 } else { tags[..nroot].iter().filter(|t| **t < my).count() as u64 };
                index(s, nroot as u64, ext_after.is_some(), Some(rank), None);
                s.push_ctx(&alts[*idx].name);
                let r = encode_q(m, &alts[*idx].ty, inner, s, q);
                s.pop_ctx();
                r?;
            } else {
                index(s, nroot as u64, true, None, Some((*idx - nroot) as u64));
                let mut sub = Sink::new();
                encode_q(m, &alts[*idx].ty, inner, &mut sub, q)?;
                s.push_ctx(&alts[*idx].name);
                if q.contains(&Quirk::EmptyOpenTypeLengthZero) && sub.bits.is_empty() {
                    s.label("open-type length (quirk: 0 for an empty encoding)");
                    s.uint(0, 8);
                } else {
                    open_type(s, &sub);
                }
                s.pop_ctx();
            }
        }
        (t, v) => return Err(RefError(format!("value {} does not fit type {}", v.short(), t.asn()))),
    }
    Ok(())
}

pub fn encode_top(m: &Module, def: &str, v: &Value) -> Result<Sink, RefError> {
    encode_top_q(m, def, v, &no_quirks())
}

pub fn encode_top_q(m: &Module, def: &str, v: &Value, q: &Quirks) -> Result<Sink, RefError> {
    let d = m.find(def).ok_or_else(|| RefError(format!("no definition {def}")))?;
    let mut s = Sink::new();
    encode_q(m, &d.ty, v, &mut s, q)?;
    Ok(s)
}

/// The recorded quirks that can possibly influence the encoding of `v` (by schema/value features).
pub fn applicable_quirks(m: &Module, ty: &Ty, v: &Value, out: &mut Quirks) {
    let ty = m.resolve(ty);
    let sized = |size: &Size, n: u64, list_like: bool, out: &mut Quirks| {
        if size.ub() == Some(size.lb()) && size.lb() >= 65536 && n == size.lb() {
            out.insert(Quirk::FixedSizeGe64KNoLength);
        }
        let general = !matches!(size.ub(), Some(u) if u < 65536) || (size.ext() && !size.contains(n));
        if list_like && general && n >= 16384 {
            out.insert(Quirk::NoListFragmentation);
        }
    };
    match (ty, v) {
        (Ty::Int { range, .. }, Value::Int(i)) => {
            if let Some(r) = range {
                if r.lb().is_some() && r.ub().is_none() {
                    out.insert(Quirk::SemiConstrainedAs63Bit);
                }
                if r.lb() == Some(0) && (r.ub().is_none() || r.ub() == Some(i64::MAX)) && !r.ext {
                    out.insert(Quirk::ZeroToMaxAsUnconstrained);
                }
                if r.lo == Bound::Min && r.ub().is_some() {
                    out.insert(Quirk::MinLowerBoundAsZero);
                }
            }
            if *i > i64::MAX as i128 {
                out.insert(Quirk::U64AboveI64MaxWrapsNegative);
            }
        }
        (Ty::Enum { root, ext }, _) => {
            let (rv, _) = enum_values(root, ext.as_deref().unwrap_or(&[]));
            if rv.windows(2).any(|w| w[0] > w[1]) {
                out.insert(Quirk::EnumIndexInDeclarationOrder);
            }
        }
        (Ty::BitStr { size, .. }, Value::Bits(b)) => sized(size, b.len() as u64, false, out),
        (Ty::OctStr { size, .. }, Value::Bytes(b)) => sized(size, b.len() as u64, false, out),
        (Ty::Str { cs, size, .. }, Value::Str(st)) => {
            if *cs != Charset::Utf8 {
                sized(size, st.chars().count() as u64, true, out)
            }
        }
        (Ty::SeqOf { size, inner, .. }, Value::List(items)) => {
            sized(size, items.len() as u64, true, out);
            // element features: look at a few distinct elements only (they come from a small pool)
            let mut seen = std::collections::HashSet::new();
            for it in items {
                if seen.len() >= 16 {
                    break;
                }
                if seen.insert(it) {
                    applicable_quirks(m, inner, it, out);
                }
            }
        }
        (Ty::SeqOf { size, .. }, Value::Bytes(b)) => sized(size, b.len() as u64, true, out),
        (Ty::Seq { comps, ext_after, .. }, Value::Seq(vals)) => {
            if *ext_after == Some(0) && !comps.is_empty() {
                out.insert(Quirk::MarkerBeforeFirstAsAfterFirst);
            }
            let nroot = ext_after.unwrap_or(comps.len());
            for (i, (c, val)) in comps.iter().zip(vals.iter()).enumerate() {
                if let Some(val) = val {
                    if i >= nroot || *ext_after == Some(0) {
                        if matches!(c.presence, Presence::Default(_)) {
                            out.insert(Quirk::DefaultAdditionNotOpenType);
                        }
                        let mut probe = Sink::new();
                        if encode(m, &c.ty, val, &mut probe).is_ok() {
                            if probe.bits.is_empty() {
                                out.insert(Quirk::EmptyOpenTypeLengthZero);
                            }
                            if probe.bits.len() >= 16384 * 8 {
                                out.insert(Quirk::FragmentedOpenTypeNotReadable);
                            }
                        }
                    }
                    applicable_quirks(m, &c.ty, val, out);
                }
            }
        }
        (Ty::Choice { alts, ext_after }, Value::Choice(idx, inner)) => {
            let nroot = ext_after.unwrap_or(alts.len());
            let tags = alt_tags(m, alts);
            if tags[..nroot].windows(2).any(|w| w[0] > w[1]) {
                out.insert(Quirk::ChoiceIndexInDeclarationOrder);
            }
            if *idx < alts.len() {
                if *idx >= nroot {
                    let mut probe = Sink::new();
                    if encode(m, &alts[*idx].ty, inner, &mut probe).is_ok() {
                        if probe.bits.is_empty() {
                            out.insert(Quirk::EmptyOpenTypeLengthZero);
                        }
                        if probe.bits.len() >= 16384 * 8 {
                            out.insert(Quirk::FragmentedOpenTypeNotReadable);
                        }
                    }
                }
                applicable_quirks(m, &alts[*idx].ty, inner, out);
            }
        }
        _ => {}
    }
}

/// Smallest subset of `candidates` with which the reference reproduces `observed`, if any
/// (greedy removal from the full applicable set; exact for independent quirks).
pub fn explain_with_quirks(m: &Module, def: &str, v: &Value, observed: &[bool], candidates: &Quirks) -> Option<Quirks> {
    if candidates.is_empty() {
        return None;
    }
    let enc = |q: &Quirks| encode_top_q(m, def, v, q).ok().map(|s| s.bits);
    if enc(candidates).as_deref() != Some(observed) {
        // maybe a strict subset reproduces it (a quirk flagged as applicable that the subject does not have here)
        for q in candidates {
            let mut one = Quirks::new();
            one.insert(*q);
            if enc(&one).as_deref() == Some(observed) {
                return Some(one);
            }
        }
        return None;
    }
    let mut cur = candidates.clone();
    for q in candidates {
        let mut t = cur.clone();
        t.remove(q);
        if enc(&t).as_deref() == Some(observed) {
            cur = t;
        }
    }
    Some(cur)
}

#[cfg(test)]
mod tests {
    use super::*;

    fn enc(f: impl FnOnce(&mut Sink)) -> (Vec<u8>, usize) {
        let mut s = Sink::new();
        f(&mut s);
        (s.pack(), s.bits.len())
    }

    #[test]
    fn primitives_from_x691_examples() {
        // constrained 0..7 = 5 -> 101
        assert_eq!(enc(|s| constrained_whole(s, 0, 7, 5)), (vec![0xA0], 3));
        // unconstrained -129 -> len 2, FF 7F
        assert_eq!(enc(|s| unconstrained(s, -129)), (vec![0x02, 0xFF, 0x7F], 24));
        assert_eq!(enc(|s| unconstrained(s, 128)), (vec![0x02, 0x00, 0x80], 24));
        assert_eq!(enc(|s| unconstrained(s, -128)), (vec![0x01, 0x80], 16));
        assert_eq!(enc(|s| semi_constrained(s, 0, 256)), (vec![0x02, 0x01, 0x00], 24));
        assert_eq!(enc(|s| normally_small(s, 5)).1, 7);
        assert_eq!(width_for_range(256), 8);
        assert_eq!(width_for_range(257), 9);
        assert_eq!(width_for_range(2), 1);
    }
}

//! Self-check of `refper` against vectors pinned in the repository's tests that are annotated
//! "from playground" (i.e. produced by an independent, commercial ASN.1 encoder). Transcribed by
//! hand into the abstract model. Run by `cargo test -p vcore` and by `selfcheck()` at the start of
//! the refper-based checks; a failure is a MACHINERY error, never a verdict.

use crate::refbits::{pack, unhex};
use crate::refper;
use crate::schema::*;

pub struct Vector {
    pub name: &'static str,
    pub module: Module,
    pub def: &'static str,
    pub value: Value,
    pub bits: usize,
    pub hex: &'static str,
}

fn s(x: &str) -> Value {
    Value::Str(x.into())
}
fn i(x: i128) -> Value {
    Value::Int(x)
}

pub fn vectors() -> Vec<Vector> {
    let utf = || Ty::string(Charset::Utf8, Size::Any);
    let seqs = Module::new("BasicSet")
        .def_tagged("Basic", Tag::c(5), Ty::seq(vec![Comp::new("abc", utf()).tagged(Tag::a(7)), Comp::new("def", Ty::int())]))
        .def_tagged("Extensible", Tag::c(5), Ty::Seq { set: false, comps: vec![Comp::new("abc", utf()).tagged(Tag::a(7)), Comp::new("def", Ty::int()), Comp::new("ghi", utf()).tagged(Tag::a(2))], ext_after: Some(2) });
    let sets = Module::new("BasicSet")
        .def_tagged("Basic", Tag::c(5), Ty::Seq { set: true, comps: vec![Comp::new("abc", utf()).tagged(Tag::a(7)), Comp::new("def", Ty::int())], ext_after: None })
        .def_tagged(
            "Extensible",
            Tag::c(5),
            Ty::Seq { set: true, comps: vec![Comp::new("abc", utf()).tagged(Tag::a(7)), Comp::new("def", Ty::int()), Comp::new("jkl", utf()).tagged(Tag::a(3)), Comp::new("ghi", utf()).tagged(Tag::a(5))], ext_after: Some(2) },
        );
    let strings = |cs: Charset| {
        Module::new("M")
            .def("Unconstrained", Ty::seq(vec![Comp::new("abc", Ty::string(cs, Size::Any))]))
            .def("BasicConstrained", Ty::seq(vec![Comp::new("abc", Ty::string(cs, Size::Fix(8, false)))]))
            .def("BasicConstrainedSmall", Ty::seq(vec![Comp::new("abc", Ty::string(cs, Size::Range(4, Some(6), false)))]))
            .def("BasicConstrainedExtensible", Ty::seq(vec![Comp::new("abc", Ty::string(cs, Size::Range(4, Some(6), true)))]))
    };
    let bitm = Module::new("M")
        .def("Unconstrained", Ty::seq(vec![Comp::new("abc", Ty::bits(Size::Any))]))
        .def("BasicConstrained", Ty::seq(vec![Comp::new("abc", Ty::bits(Size::Fix(8, false)))]))
        .def("BasicConstrainedSmall", Ty::seq(vec![Comp::new("abc", Ty::bits(Size::Range(4, Some(6), false)))]))
        .def("BasicConstrainedExtensible", Ty::seq(vec![Comp::new("abc", Ty::bits(Size::Range(4, Some(6), true)))]));
    let bits = |bytes: &[u8], n: usize| Value::Bits(crate::refbits::unpack_n(bytes, n));
    let enums = Module::new("M")
        .def("PredefinedNumbers", Ty::Enum { root: vec![("abc".into(), Some(0)), ("def".into(), Some(5))], ext: Some(vec![("ghi".into(), Some(8)), ("jkl".into(), Some(9))]) })
        .def("SomeEnum", Ty::Enum { root: vec![("abc".into(), Some(0)), ("def".into(), Some(1)), ("ghi".into(), Some(2)), ("jkl".into(), Some(3)), ("mno".into(), Some(4)), ("qrs".into(), Some(15))], ext: None });
    let sof = Module::new("M")
        .def("Unconstrained", Ty::seq_of(Size::Any, Ty::int()))
        .def("BasicConstrained", Ty::seq_of(Size::Fix(3, false), Ty::int()))
        .def("BasicConstrainedSmall", Ty::seq_of(Size::Range(2, Some(3), false), Ty::int()))
        .def("BasicConstrainedExtensible", Ty::seq_of(Size::Range(2, Some(3), true), Ty::int()));
    let mut more63_alts = vec![Alt::new("abc", utf())];
    for k in 0..70 {
        more63_alts.push(Alt::new(&format!("e{k:02}"), Ty::int()));
    }
    let choice = Module::new("M").def("MoreThan63Extensions", Ty::Choice { alts: more63_alts, ext_after: Some(1) });
    let seq1 = |x: Value| Value::Seq(vec![Some(x)]);
    let list = |v: &[i128]| Value::List(v.iter().map(|x| i(*x)).collect());
    vec![
        Vector { name: "basic_sequence::test_basic", module: seqs.clone(), def: "Basic", value: Value::Seq(vec![Some(s("hello world")), Some(i(778))]), bits: 120, hex: "0B68656C6C6F20776F726C6402030A" },
        Vector { name: "basic_sequence::test_extensible", module: seqs, def: "Extensible", value: Value::Seq(vec![Some(s("bye bye")), Some(i(774)), Some(s("great extension"))]), bits: 8 * 29 + 1, hex: "83B13CB290313CB2810183008807B3B932B0BA1032BC3A32B739B4B7B700" },
        Vector { name: "basic_set::test_basic", module: sets.clone(), def: "Basic", value: Value::Seq(vec![Some(s("hello world")), Some(i(778))]), bits: 120, hex: "02030A0B68656C6C6F20776F726C64" },
        Vector { name: "basic_set::test_extensible", module: sets.clone(), def: "Extensible", value: Value::Seq(vec![Some(s("bye bye")), Some(i(774)), Some(s("jkl")), Some(s("ghi"))]), bits: 8 * 22 + 2, hex: "81018303B13CB290313CB281C100DA9ADB0100D9DA1A40" },
        Vector { name: "basic_set::test_extensible_2", module: sets.clone(), def: "Extensible", value: Value::Seq(vec![Some(s("bye bye")), Some(i(774)), None, None]), bits: 8 * 11 + 1, hex: "01018303B13CB290313CB280" },
        Vector { name: "basic_set::test_extensible_4", module: sets, def: "Extensible", value: Value::Seq(vec![Some(s("bye bye")), Some(i(774)), Some(s("jkl")), None]), bits: 8 * 17 + 2, hex: "81018303B13CB290313CB2818100DA9ADB00" },
        Vector { name: "basic_ia5string::test_fixed_size", module: strings(Charset::Ia5), def: "BasicConstrained", value: seq1(s("exactly8")), bits: 56, hex: "CBE30E3E9B3CB8" },
        Vector { name: "basic_ia5string::test_small_max", module: strings(Charset::Ia5), def: "BasicConstrainedSmall", value: seq1(s("s-i-x!")), bits: 44, hex: "B9ADD2B7C210" },
        Vector { name: "basic_ia5string::test_extensible_small", module: strings(Charset::Ia5), def: "BasicConstrainedExtensible", value: seq1(s("four")), bits: 31, hex: "19B7F5E4" },
        Vector { name: "basic_ia5string::test_extensible_extended", module: strings(Charset::Ia5), def: "BasicConstrainedExtensible", value: seq1(s("seven!!")), bits: 58, hex: "83F3CBDB2EE42840" },
        Vector { name: "basic_numeric_string::test_unconstrained", module: strings(Charset::Numeric), def: "Unconstrained", value: seq1(s(" 0123456789")), bits: 52, hex: "0B0123456789A0" },
        Vector { name: "basic_numeric_string::test_fixed_size", module: strings(Charset::Numeric), def: "BasicConstrained", value: seq1(s("12345678")), bits: 32, hex: "23456789" },
        Vector { name: "basic_numeric_string::test_small_min", module: strings(Charset::Numeric), def: "BasicConstrainedSmall", value: seq1(s("1234")), bits: 18, hex: "08D140" },
        Vector { name: "basic_numeric_string::test_small_max", module: strings(Charset::Numeric), def: "BasicConstrainedSmall", value: seq1(s("123456")), bits: 26, hex: "88D159C0" },
        Vector { name: "basic_numeric_string::test_extensible_small", module: strings(Charset::Numeric), def: "BasicConstrainedExtensible", value: seq1(s("1234")), bits: 19, hex: "0468A0" },
        Vector { name: "basic_numeric_string::test_extensible_extended", module: strings(Charset::Numeric), def: "BasicConstrainedExtensible", value: seq1(s("1234567")), bits: 37, hex: "8391A2B3C0" },
        Vector { name: "basic_bitstring::test_unconstrained_6_bits", module: bitm.clone(), def: "Unconstrained", value: seq1(bits(&[0b1010_1100], 6)), bits: 14, hex: "06AC" },
        Vector { name: "basic_bitstring::test_unconstrained_5_bytes", module: bitm.clone(), def: "Unconstrained", value: seq1(bits(&[0x12, 0x34, 0x56, 0x78, 0x90], 40)), bits: 48, hex: "281234567890" },
        Vector { name: "basic_bitstring::test_fixed_size", module: bitm.clone(), def: "BasicConstrained", value: seq1(bits(&[0x12], 8)), bits: 8, hex: "12" },
        Vector { name: "basic_bitstring::test_small_max", module: bitm.clone(), def: "BasicConstrainedSmall", value: seq1(bits(&[0xff], 6)), bits: 8, hex: "BF" },
        Vector { name: "basic_bitstring::test_extensible_small", module: bitm.clone(), def: "BasicConstrainedExtensible", value: seq1(bits(&[0xaf], 6)), bits: 9, hex: "5580" },
        Vector { name: "basic_bitstring::test_extensible_extended_1", module: bitm.clone(), def: "BasicConstrainedExtensible", value: seq1(bits(&[0b1010_1100], 7)), bits: 16, hex: "83D6" },
        Vector { name: "basic_bitstring::test_extensible_extended_7", module: bitm, def: "BasicConstrainedExtensible", value: seq1(bits(&[0b1010_1101, 0b0101_1000], 14)), bits: 23, hex: "8756AC" },
        Vector { name: "basic_enumerated::predefined abc", module: enums.clone(), def: "PredefinedNumbers", value: Value::Enum(0), bits: 2, hex: "00" },
        Vector { name: "basic_enumerated::predefined def", module: enums.clone(), def: "PredefinedNumbers", value: Value::Enum(1), bits: 2, hex: "40" },
        Vector { name: "basic_enumerated::predefined ghi", module: enums.clone(), def: "PredefinedNumbers", value: Value::Enum(2), bits: 8, hex: "80" },
        Vector { name: "basic_enumerated::predefined jkl", module: enums.clone(), def: "PredefinedNumbers", value: Value::Enum(3), bits: 8, hex: "81" },
        Vector { name: "basic_enumerated::some_enum qrs", module: enums.clone(), def: "SomeEnum", value: Value::Enum(5), bits: 3, hex: "A0" },
        Vector { name: "basic_enumerated::some_enum jkl", module: enums, def: "SomeEnum", value: Value::Enum(3), bits: 3, hex: "60" },
        Vector { name: "basic_sequence_of::test_unconstrained", module: sof.clone(), def: "Unconstrained", value: list(&[1, 2, 3, 4, 5]), bits: 88, hex: "0501010102010301040105" },
        Vector { name: "basic_sequence_of::test_fixed_size", module: sof.clone(), def: "BasicConstrained", value: list(&[1, 2, 3]), bits: 48, hex: "010101020103" },
        Vector { name: "basic_sequence_of::test_small_min", module: sof.clone(), def: "BasicConstrainedSmall", value: list(&[1, 2]), bits: 33, hex: "0080808100" },
        Vector { name: "basic_sequence_of::test_small_max", module: sof.clone(), def: "BasicConstrainedSmall", value: list(&[1, 2, 3]), bits: 49, hex: "80808081008180" },
        Vector { name: "basic_sequence_of::test_extensible_small", module: sof.clone(), def: "BasicConstrainedExtensible", value: list(&[1, 2, 3]), bits: 50, hex: "404040408040C0" },
        Vector { name: "basic_sequence_of::test_extensible_extended", module: sof, def: "BasicConstrainedExtensible", value: list(&[1, 2, 3, 4, 5]), bits: 89, hex: "828080808100818082008280" },
        Vector { name: "basic_choice::more_than_63 e69(0)", module: choice.clone(), def: "MoreThan63Extensions", value: Value::Choice(70, Box::new(i(0))), bits: 42, hex: "C05140804000" },
        Vector { name: "basic_choice::more_than_63 e69(22)", module: choice, def: "MoreThan63Extensions", value: Value::Choice(70, Box::new(i(22))), bits: 42, hex: "C05140804580" },
    ]
}

/// Returns the list of vectors `refper` does NOT reproduce (empty = reference is consistent with
/// the externally produced vectors).
pub fn selfcheck() -> Vec<String> {
    let mut bad = vec![];
    for v in vectors() {
        match refper::encode_top(&v.module, v.def, &v.value) {
            Err(e) => bad.push(format!("{}: reference error {}", v.name, e.0)),
            Ok(sink) => {
                let want = unhex(v.hex);
                if sink.bits.len() != v.bits || pack(&sink.bits) != want {
                    bad.push(format!("{}: reference gives {} bits {}, vector is {} bits {}", v.name, sink.bits.len(), crate::refbits::hex(&pack(&sink.bits)), v.bits, v.hex));
                }
            }
        }
    }
    bad
}

#[cfg(test)]
mod tests {
    #[test]
    fn refper_reproduces_the_repository_playground_vectors() {
        let bad = super::selfcheck();
        assert!(bad.is_empty(), "{}", bad.join("\n"));
    }
}

//! Shared reporting: violation classes, known-finding matching, evidence and replay files.
//!
//! A *class* is a short, stable string computed by an engine from the INPUT of a failing case and
//! the KIND of failure (never from line numbers or message text of the subject). Known findings
//! (`/verif/known_findings.json`, committed, never written at run time) are matched by
//! `(property, class)`. Anything unlisted is a VIOLATION with a replay artefact.

use serde_json::{json, Map, Value};
use std::collections::BTreeMap;
use std::path::PathBuf;
use std::time::Instant;

pub fn verif_root() -> PathBuf {
    std::env::var_os("VERIF_ROOT")
        .map(PathBuf::from)
        .unwrap_or_else(|| PathBuf::from("/verif"))
}

#[derive(Clone, Copy, PartialEq, Eq, Debug)]
pub enum Tier {
    Quick,
    Thorough,
}

impl Tier {
    pub fn as_str(self) -> &'static str {
        match self {
            Tier::Quick => "quick",
            Tier::Thorough => "thorough",
        }
    }
    pub fn is_thorough(self) -> bool {
        self == Tier::Thorough
    }
}

pub struct Args {
    pub property: String,
    pub tier: Tier,
    pub seed: i64,
    pub replay: Option<PathBuf>,
    pub rest: Vec<String>,
}

/// `engine <ID> quick|thorough` or `engine <ID> --replay <file>`; VERIF_TIER overrides the tier,
/// VERIF_SEED is recorded (it only rotates displayed samples; nothing is sampled).
pub fn parse_args() -> Args {
    let a: Vec<String> = std::env::args().skip(1).collect();
    if a.is_empty() {
        eprintln!("usage: <engine> <ID> quick|thorough | <ID> --replay <file>");
        std::process::exit(2);
    }
    let property = a[0].clone();
    let mut tier = Tier::Quick;
    let mut replay = None;
    let mut rest = vec![];
    let mut i = 1;
    while i < a.len() {
        match a[i].as_str() {
            "quick" => tier = Tier::Quick,
            "thorough" => tier = Tier::Thorough,
            "--replay" => {
                i += 1;
                replay = Some(PathBuf::from(&a[i]));
            }
            other => rest.push(other.to_string()),
        }
        i += 1;
    }
    if let Ok(t) = std::env::var("VERIF_TIER") {
        match t.as_str() {
            "quick" => tier = Tier::Quick,
            "thorough" => tier = Tier::Thorough,
            _ => {}
        }
    }
    let seed = std::env::var("VERIF_SEED")
        .ok()
        .and_then(|s| s.parse::<i64>().ok())
        .unwrap_or(0);
    Args {
        property,
        tier,
        seed,
        replay,
        rest,
    }
}

#[derive(Clone, Debug)]
pub struct KnownFinding {
    /// the properties this finding is visible through
    pub properties: Vec<String>,
    /// glob over violation classes (empty if this entry is a quirk entry)
    pub class: String,
    /// name of the executable quirk model (vcore::refper::Quirk::name) this finding corresponds to
    pub quirk: String,
    pub what: String,
    pub status: String,
}

impl KnownFinding {
    pub fn applies_to(&self, property: &str) -> bool {
        self.properties.iter().any(|p| p == property)
    }
}

pub fn load_known_findings() -> Vec<KnownFinding> {
    let p = verif_root().join("known_findings.json");
    let txt = match std::fs::read_to_string(&p) {
        Ok(t) => t,
        Err(_) => return vec![],
    };
    let v: Value = serde_json::from_str(&txt).unwrap_or_else(|e| {
        eprintln!("MACHINERY: cannot parse {}: {e}", p.display());
        std::process::exit(2)
    });
    let mut out = vec![];
    for e in v["findings"].as_array().cloned().unwrap_or_default() {
        let mut properties: Vec<String> = e["properties"].as_array().map(|a| a.iter().filter_map(|x| x.as_str().map(|s| s.to_string())).collect()).unwrap_or_default();
        if let Some(p) = e["property"].as_str() {
            properties.push(p.to_string());
        }
        out.push(KnownFinding {
            properties,
            quirk: e["quirk"].as_str().unwrap_or("").to_string(),
            class: e["class"].as_str().unwrap_or("").to_string(),
            what: e["what"].as_str().unwrap_or("").to_string(),
            status: e["status"].as_str().unwrap_or("open").to_string(),
        });
    }
    out
}

/// A failing case as recorded by an engine.
impl Failure {
    pub fn to_json(&self) -> Value {
        json!({"class": self.class, "case": self.case, "expected": self.expected, "observed": self.observed})
    }
    pub fn from_json(v: &Value) -> Self {
        Failure {
            class: v["class"].as_str().unwrap_or("").to_string(),
            case: v["case"].clone(),
            expected: v["expected"].as_str().unwrap_or("").to_string(),
            observed: v["observed"].as_str().unwrap_or("").to_string(),
        }
    }
}

/// Per-class aggregation that can cross a process boundary.
pub fn failures_to_json(m: &BTreeMap<String, (u64, Failure)>) -> Value {
    Value::Array(m.iter().map(|(k, (n, f))| json!({"class": k, "count": n, "first": f.to_json()})).collect())
}

pub fn failures_merge_json(into: &mut BTreeMap<String, (u64, Failure)>, v: &Value) {
    for e in v.as_array().cloned().unwrap_or_default() {
        let k = e["class"].as_str().unwrap().to_string();
        let n = e["count"].as_u64().unwrap();
        let f = Failure::from_json(&e["first"]);
        let ent = into.entry(k).or_insert((0, f));
        ent.0 += n;
    }
}

#[derive(Clone, Debug)]
pub struct Failure {
    pub class: String,
    /// self-contained replayable description of the case (must contain "kind")
    pub case: Value,
    pub expected: String,
    pub observed: String,
}

#[derive(Default)]
pub struct ClassStat {
    pub count: u64,
    pub first: Option<Failure>,
}

pub struct Report {
    pub property: String,
    pub tier: Tier,
    pub seed: i64,
    pub level: &'static str,
    pub start: Instant,
    pub failures: BTreeMap<String, ClassStat>,
    pub notes: Vec<String>,
}

impl Report {
    pub fn new(args: &Args, level: &'static str) -> Self {
        Report {
            property: args.property.clone(),
            tier: args.tier,
            seed: args.seed,
            level,
            start: Instant::now(),
            failures: BTreeMap::new(),
            notes: vec![],
        }
    }

    pub fn fail(&mut self, f: Failure) {
        let st = self.failures.entry(f.class.clone()).or_default();
        st.count += 1;
        if st.first.is_none() {
            st.first = Some(f);
        }
    }

    pub fn fail_all(&mut self, fs: impl IntoIterator<Item = Failure>) {
        for f in fs {
            self.fail(f);
        }
    }

    /// Merge pre-aggregated per-class statistics (count, first example in enumeration order).
    pub fn merge(&mut self, class: String, count: u64, first: Failure) {
        let st = self.failures.entry(class).or_default();
        st.count += count;
        if st.first.is_none() {
            st.first = Some(first);
        }
    }

    /// Writes evidence + replays, prints KNOWN-FINDING / VIOLATION lines, exits 0 or 1.
    pub fn finish(self, mut coverage: Map<String, Value>, assumptions: Vec<String>) -> ! {
        let known = load_known_findings();
        let root = verif_root();
        let mut n_viol = 0i64;
        let mut known_hit = vec![];
        let mut lines = vec![];
        for (class, st) in &self.failures {
            let f = st.first.as_ref().unwrap();
            let kf = find_known(&known, &self.property, class);
            if let Some(k) = kf {
                lines.push(format!(
                    "KNOWN-FINDING: property={} class={} cases={} {}",
                    self.property, class, st.count, truncate(&k.what, 220)
                ));
                known_hit.push(json!({"class": class, "cases": st.count}));
            } else {
                n_viol += 1;
                let dir = root.join("replays").join(&self.property);
                let _ = std::fs::create_dir_all(&dir);
                let fname: String = class
                    .chars()
                    .map(|c| if c.is_ascii_alphanumeric() || c == '-' || c == '_' || c == '.' { c } else { '_' })
                    .collect();
                let path = dir.join(format!("{fname}.json"));
                let art = json!({
                    "property": self.property,
                    "class": class,
                    "cases_in_class": st.count,
                    "case": f.case,
                    "expected": f.expected,
                    "observed": f.observed,
                });
                let _ = std::fs::write(&path, serde_json::to_string_pretty(&art).unwrap());
                lines.push(format!(
                    "VIOLATION property={} replay={} class={} cases={} expected=[{}] observed=[{}]",
                    self.property,
                    path.display(),
                    class,
                    st.count,
                    truncate(&f.expected, 160),
                    truncate(&f.observed, 160)
                ));
            }
        }
        // fixed entries whose class reappeared are violations by construction (status != open)
        let wall = self.start.elapsed().as_secs_f64();
        coverage.insert("known_findings_hit".into(), Value::Array(known_hit));
        if !self.notes.is_empty() {
            coverage.insert("notes".into(), json!(self.notes));
        }
        let ev = json!({
            "property_id": self.property,
            "tier": self.tier.as_str(),
            "seed": self.seed,
            "level": self.level,
            "coverage": Value::Object(coverage.clone()),
            "assumptions": assumptions,
            "wall_s": (wall * 1000.0).round() / 1000.0,
            "violations": n_viol,
        });
        let evdir = root.join("evidence");
        let _ = std::fs::create_dir_all(&evdir);
        let evp = evdir.join(format!("{}.json", self.property));
        if let Err(e) = std::fs::write(&evp, serde_json::to_string_pretty(&ev).unwrap()) {
            eprintln!("MACHINERY: cannot write {}: {e}", evp.display());
            std::process::exit(2);
        }
        for l in &lines {
            println!("{l}");
        }
        let brief: Vec<String> = coverage
            .iter()
            .filter(|(_, v)| v.is_number() || v.is_boolean())
            .map(|(k, v)| format!("{k}={v}"))
            .collect();
        println!(
            "SUMMARY property={} tier={} violations={} known_findings={} wall_s={:.1} {}",
            self.property,
            self.tier.as_str(),
            n_viol,
            lines.iter().filter(|l| l.starts_with("KNOWN")).count(),
            wall,
            brief.join(" ")
        );
        std::process::exit(if n_viol > 0 { 1 } else { 0 })
    }
}

/// A class `quirk.<a>+<b>[.<suffix>]` is known iff EVERY named quirk has an open entry for the
/// property (so a repaired quirk that reappears is reported even in combination with an open one);
/// any other class is known iff an open entry's class glob matches it.
pub fn find_known<'a>(known: &'a [KnownFinding], property: &str, class: &str) -> Option<&'a KnownFinding> {
    if let Some(rest) = class.strip_prefix("quirk.") {
        let names = rest.split('.').next().unwrap_or("");
        let mut first = None;
        for n in names.split('+') {
            match known.iter().find(|k| k.applies_to(property) && k.status == "open" && !k.quirk.is_empty() && k.quirk == n) {
                Some(k) => {
                    if first.is_none() {
                        first = Some(k);
                    }
                }
                None => return None,
            }
        }
        return first;
    }
    known.iter().find(|k| k.applies_to(property) && k.status == "open" && !k.class.is_empty() && glob_match(&k.class, class))
}

/// `*` matches any (possibly empty) run of characters; everything else is literal.
pub fn glob_match(pat: &str, s: &str) -> bool {
    let parts: Vec<&str> = pat.split('*').collect();
    if parts.len() == 1 {
        return pat == s;
    }
    let mut pos = 0usize;
    for (i, part) in parts.iter().enumerate() {
        if i == 0 {
            if !s.starts_with(part) {
                return false;
            }
            pos = part.len();
        } else if i == parts.len() - 1 {
            return s.len() >= pos + part.len() && s[pos..].ends_with(part);
        } else {
            match s[pos..].find(part) {
                Some(k) => pos += k + part.len(),
                None => return false,
            }
        }
    }
    true
}

pub use vbase::truncate;

pub fn machinery_error(msg: &str) -> ! {
    eprintln!("MACHINERY-ERROR: {msg}");
    println!("MACHINERY-ERROR: {msg}");
    std::process::exit(2)
}

/// Load a replay artefact and return its `case` object.
pub fn load_replay(path: &std::path::Path) -> Value {
    let txt = std::fs::read_to_string(path)
        .unwrap_or_else(|e| machinery_error(&format!("cannot read replay {}: {e}", path.display())));
    let v: Value = serde_json::from_str(&txt)
        .unwrap_or_else(|e| machinery_error(&format!("cannot parse replay: {e}")));
    if v.get("case").is_some() {
        v["case"].clone()
    } else {
        v
    }
}

/// Run `f` under catch_unwind with the panic message captured (hook must be installed by
/// `install_quiet_panic_hook`).
pub fn catch<T>(f: impl FnOnce() -> T) -> Result<T, String> {
    match std::panic::catch_unwind(std::panic::AssertUnwindSafe(f)) {
        Ok(v) => Ok(v),
        Err(p) => {
            let msg = if let Some(s) = p.downcast_ref::<&str>() {
                s.to_string()
            } else if let Some(s) = p.downcast_ref::<String>() {
                s.clone()
            } else {
                "<non-string panic>".to_string()
            };
            let loc = LAST_PANIC_LOC.with(|l| l.borrow_mut().take()).unwrap_or_default();
            Err(format!("{msg} @ {loc}"))
        }
    }
}

thread_local! {
    pub static LAST_PANIC_LOC: std::cell::RefCell<Option<String>> = const { std::cell::RefCell::new(None) };
}

/// Silences the default "thread panicked" output and records the location for `catch`.
pub fn install_quiet_panic_hook() {
    std::panic::set_hook(Box::new(|info| {
        let loc = info
            .location()
            .map(|l| format!("{}:{}", l.file(), l.line()))
            .unwrap_or_default();
        LAST_PANIC_LOC.with(|l| *l.borrow_mut() = Some(loc));
    }));
}

/// File name component of a panic location (stable across line shifts): "slice.rs".
pub fn panic_file(msg_at_loc: &str) -> String {
    let loc = msg_at_loc.rsplit(" @ ").next().unwrap_or("");
    let file = loc.rsplit_once(':').map(|x| x.0).unwrap_or(loc);
    file.rsplit('/').next().unwrap_or(file).to_string()
}

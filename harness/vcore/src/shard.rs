//! Process-level sharding. The subject captures a backtrace (behind a global lock) for several
//! error kinds, so error-heavy sweeps do not scale over threads; they scale over processes.
//! The parent re-executes the current binary with VERIF_SHARD=i/n; a child prints exactly one
//! line `SHARD-RESULT <json>`; the parent returns the results in shard order (deterministic).

use serde_json::Value;
use std::io::Read;
use std::process::{Command, Stdio};

pub fn my_shard() -> Option<(usize, usize)> {
    let s = std::env::var("VERIF_SHARD").ok()?;
    let (a, b) = s.split_once('/')?;
    Some((a.parse().ok()?, b.parse().ok()?))
}

pub fn emit_shard_result(v: &Value) -> ! {
    println!("SHARD-RESULT {}", serde_json::to_string(v).unwrap());
    std::process::exit(0)
}

pub fn default_shards() -> usize {
    std::thread::available_parallelism().map(|n| n.get()).unwrap_or(4).min(16)
}

/// Spawns `n` children with the same argv plus env `VERIF_SHARD_PART=part`.
pub fn run_shards(part: &str, n: usize) -> Vec<Value> {
    let exe = std::env::current_exe().expect("current_exe");
    let args: Vec<String> = std::env::args().skip(1).collect();
    let mut children = vec![];
    for i in 0..n {
        let c = Command::new(&exe)
            .args(&args)
            .env("VERIF_SHARD", format!("{i}/{n}"))
            .env("VERIF_SHARD_PART", part)
            .stdout(Stdio::piped())
            .stderr(Stdio::inherit())
            .spawn()
            .unwrap_or_else(|e| crate::report::machinery_error(&format!("cannot spawn shard: {e}")));
        children.push(c);
    }
    let mut out = vec![];
    for (i, mut c) in children.into_iter().enumerate() {
        let mut s = String::new();
        c.stdout.take().unwrap().read_to_string(&mut s).ok();
        let st = c.wait().expect("wait");
        let line = s.lines().find(|l| l.starts_with("SHARD-RESULT "));
        match (st.success(), line) {
            (true, Some(l)) => out.push(serde_json::from_str(&l["SHARD-RESULT ".len()..]).expect("shard json")),
            _ => crate::report::machinery_error(&format!("shard {i}/{n} of part {part} failed: status {st:?}, output tail: {}", s.chars().rev().take(400).collect::<String>().chars().rev().collect::<String>())),
        }
    }
    out
}

pub fn shard_part() -> String {
    std::env::var("VERIF_SHARD_PART").unwrap_or_default()
}

//! The `sweeper`: runs an indexable case space in worker *processes* so that aborts (allocation
//! failure, stack overflow), hangs and address-space exhaustion are attributed to the case that
//! caused them instead of killing the check.
//!
//! Protocol (child stdout, line based):
//!   `S <idx>`                 about to run case idx
//!   `C <next_idx> <json>`     checkpoint: everything before next_idx (of this shard) is done, json =
//!                             aggregated result since the previous checkpoint
//!   `D`                       shard done
//! The parent restarts a dead worker after the offending index and merges checkpoints in shard
//! order, so results and counts are deterministic.

use serde_json::Value;
use std::io::{BufRead, BufReader, Write};
use std::process::{Command, Stdio};
use std::sync::mpsc;
use std::time::{Duration, Instant};

#[derive(Debug, Clone)]
pub struct Crash {
    pub index: usize,
    pub what: String, // "abort(signal 6)", "hang(>20s)", ...
}

pub struct SweepResult {
    /// checkpoint payloads in (shard, sequence) order
    pub chunks: Vec<Value>,
    pub crashes: Vec<Crash>,
}

pub struct ChildCtx {
    pub part: String,
    pub shard: usize,
    pub shards: usize,
    pub resume_from: usize,
    pub skip: Vec<usize>,
}

pub fn child_ctx() -> Option<ChildCtx> {
    let s = std::env::var("VERIF_SWEEP").ok()?;
    // part|shard|shards|resume|skip,skip
    let f: Vec<&str> = s.split('|').collect();
    Some(ChildCtx {
        part: f[0].to_string(),
        shard: f[1].parse().ok()?,
        shards: f[2].parse().ok()?,
        resume_from: f[3].parse().ok()?,
        skip: f.get(4).map(|x| x.split(',').filter(|y| !y.is_empty()).map(|y| y.parse().unwrap()).collect()).unwrap_or_default(),
    })
}

/// Limit the address space of this (child) process.
pub fn limit_address_space(bytes: u64) {
    unsafe {
        let lim = libc::rlimit { rlim_cur: bytes as libc::rlim_t, rlim_max: bytes as libc::rlim_t };
        libc::setrlimit(libc::RLIMIT_AS, &lim);
    }
}

/// Child side: runs `run(idx)` for every index of this shard, `flush(next_idx)` must return the
/// aggregated JSON since the last flush (and reset the aggregation).
pub fn child_loop(ctx: &ChildCtx, n_cases: usize, checkpoint_every: usize, mut run: impl FnMut(usize), mut flush: impl FnMut() -> Value) -> ! {
    let out = std::io::stdout();
    let mut since = 0usize;
    let mut idx = ctx.shard;
    while idx < ctx.resume_from {
        idx += ctx.shards;
    }
    while idx < n_cases {
        if !ctx.skip.contains(&idx) {
            {
                let mut o = out.lock();
                let _ = writeln!(o, "S {idx}");
                let _ = o.flush();
            }
            run(idx);
            since += 1;
        }
        idx += ctx.shards;
        if since >= checkpoint_every {
            let v = flush();
            let mut o = out.lock();
            let _ = writeln!(o, "C {idx} {}", serde_json::to_string(&v).unwrap());
            let _ = o.flush();
            since = 0;
        }
    }
    let v = flush();
    let mut o = out.lock();
    let _ = writeln!(o, "C {idx} {}", serde_json::to_string(&v).unwrap());
    let _ = writeln!(o, "D");
    let _ = o.flush();
    drop(o);
    std::process::exit(0)
}

enum Msg {
    Line(usize, String),
    Eof(usize),
}

struct Worker {
    child: std::process::Child,
    last_start: Option<usize>,
    last_activity: Instant,
    resume: usize,
    skip: Vec<usize>,
    done: bool,
    chunks: Vec<Value>,
    killed: bool,
}

fn spawn(part: &str, shard: usize, shards: usize, resume: usize, skip: &[usize], tx: &mpsc::Sender<Msg>, extra_env: &[(String, String)]) -> std::process::Child {
    let exe = std::env::current_exe().expect("current_exe");
    let args: Vec<String> = std::env::args().skip(1).collect();
    let skip_s: Vec<String> = skip.iter().map(|x| x.to_string()).collect();
    let mut cmd = Command::new(&exe);
    cmd.args(&args)
        .env("VERIF_SWEEP", format!("{part}|{shard}|{shards}|{resume}|{}", skip_s.join(",")))
        .stdout(Stdio::piped())
        .stderr(Stdio::null());
    for (k, v) in extra_env {
        cmd.env(k, v);
    }
    let mut c = cmd.spawn().unwrap_or_else(|e| crate::report::machinery_error(&format!("cannot spawn sweep worker: {e}")));
    let stdout = c.stdout.take().unwrap();
    let tx = tx.clone();
    std::thread::spawn(move || {
        let r = BufReader::new(stdout);
        for l in r.lines() {
            match l {
                Ok(l) => {
                    if tx.send(Msg::Line(shard, l)).is_err() {
                        return;
                    }
                }
                Err(_) => break,
            }
        }
        let _ = tx.send(Msg::Eof(shard));
    });
    c
}

/// Parent side.
pub fn sweep(part: &str, shards: usize, hang_timeout: Duration, extra_env: &[(String, String)]) -> SweepResult {
    let (tx, rx) = mpsc::channel::<Msg>();
    let mut workers: Vec<Worker> = (0..shards)
        .map(|s| Worker {
            child: spawn(part, s, shards, 0, &[], &tx, extra_env),
            last_start: None,
            last_activity: Instant::now(),
            resume: 0,
            skip: vec![],
            done: false,
            chunks: vec![],
            killed: false,
        })
        .collect();
    let mut crashes: Vec<Crash> = vec![];
    let mut restarts = 0usize;
    loop {
        if workers.iter().all(|w| w.done) {
            break;
        }
        match rx.recv_timeout(Duration::from_millis(500)) {
            Ok(Msg::Line(s, l)) => {
                let w = &mut workers[s];
                w.last_activity = Instant::now();
                if let Some(rest) = l.strip_prefix("S ") {
                    w.last_start = rest.trim().parse().ok();
                } else if let Some(rest) = l.strip_prefix("C ") {
                    let (next, js) = rest.split_once(' ').unwrap_or((rest, "null"));
                    w.resume = next.parse().unwrap_or(w.resume);
                    w.last_start = None;
                    match serde_json::from_str(js) {
                        Ok(v) => w.chunks.push(v),
                        Err(e) => crate::report::machinery_error(&format!("bad checkpoint json from shard {s}: {e}")),
                    }
                } else if l == "D" {
                    w.done = true;
                    let _ = w.child.wait();
                }
            }
            Ok(Msg::Eof(s)) => {
                let w = &mut workers[s];
                if w.done {
                    continue;
                }
                let status = w.child.wait().ok();
                if w.killed {
                    // killed by the watchdog below; the crash is already recorded
                    w.killed = false;
                } else {
                    let what = match status {
                        Some(st) => {
                            use std::os::unix::process::ExitStatusExt;
                            if let Some(sig) = st.signal() {
                                format!("abort(signal {sig})")
                            } else {
                                format!("exit({})", st.code().unwrap_or(-1))
                            }
                        }
                        None => "died".into(),
                    };
                    // every call into the subject is guarded by catch_unwind inside the engines: a worker that ends with
                    // Rust's panic status (101) panicked in HARNESS code. That is a defect of the machinery, never a verdict.
                    if what == "exit(101)" {
                        crate::report::machinery_error(&format!("a sweep worker of part {part} panicked outside the guarded subject calls (harness defect) at case {:?}; rerun the worker with VERIF_SWEEP set to see the message", w.last_start));
                    }
                    match w.last_start {
                        Some(idx) => {
                            crashes.push(Crash { index: idx, what });
                            w.skip.push(idx);
                        }
                        None => crate::report::machinery_error(&format!("sweep worker {s} of part {part} died ({what}) outside any case")),
                    }
                }
                restarts += 1;
                if restarts > 20000 {
                    crate::report::machinery_error("more than 20000 worker crashes; giving up");
                }
                w.last_start = None;
                w.last_activity = Instant::now();
                w.child = spawn(part, s, shards, w.resume, &w.skip, &tx, extra_env);
            }
            Err(mpsc::RecvTimeoutError::Timeout) => {}
            Err(mpsc::RecvTimeoutError::Disconnected) => break,
        }
        // watchdog
        for w in workers.iter_mut() {
            if !w.done && !w.killed && w.last_start.is_some() && w.last_activity.elapsed() > hang_timeout {
                let idx = w.last_start.unwrap();
                crashes.push(Crash { index: idx, what: format!("hang(>{}s)", hang_timeout.as_secs()) });
                w.skip.push(idx);
                w.killed = true;
                let _ = w.child.kill(); // the reader thread delivers Eof; respawn happens there
            }
        }
    }
    let mut chunks = vec![];
    for w in workers {
        chunks.extend(w.chunks);
    }
    crashes.sort_by_key(|c| c.index);
    crashes.dedup_by_key(|c| c.index);
    SweepResult { chunks, crashes }
}

/// Reads the lines a child process prints, handing each to `on_line` (which returns `false` to stop), until the
/// child closes its output or stays silent for longer than `silence` - then it is killed. A "locate" re-walk of
/// a block whose worker HUNG must not hang the check in turn: the last line announced before the silence names
/// the case.
pub fn lines_until_silent(child: &mut std::process::Child, silence: Duration, mut on_line: impl FnMut(&str) -> bool) {
    use std::io::{BufRead, BufReader};
    let out = match child.stdout.take() {
        Some(o) => o,
        None => return,
    };
    let (tx, rx) = mpsc::channel::<String>();
    std::thread::spawn(move || {
        for l in BufReader::new(out).lines().map_while(Result::ok) {
            if tx.send(l).is_err() {
                break;
            }
        }
    });
    loop {
        match rx.recv_timeout(silence) {
            Ok(l) => {
                if !on_line(&l) {
                    break;
                }
            }
            Err(mpsc::RecvTimeoutError::Timeout) => {
                let _ = child.kill();
                break;
            }
            Err(mpsc::RecvTimeoutError::Disconnected) => break,
        }
    }
}

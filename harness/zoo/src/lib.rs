//! The compiled zoo = union of the parts (split only so that rustc works on them in parallel).
pub use zoo_core::*;

pub fn registry() -> Vec<Entry> {
    let mut v: Vec<Entry> = vec![];
    let mut rej: Vec<&str> = vec![];
    v.extend(zp0::registry());
    rej.push(zp0::ZOO_REJECTED_JSON);
    v.extend(zp1::registry());
    rej.push(zp1::ZOO_REJECTED_JSON);
    v.extend(zp2::registry());
    rej.push(zp2::ZOO_REJECTED_JSON);
    v.extend(zp3::registry());
    rej.push(zp3::ZOO_REJECTED_JSON);
    v.extend(zp4::registry());
    rej.push(zp4::ZOO_REJECTED_JSON);
    v.extend(zp5::registry());
    rej.push(zp5::ZOO_REJECTED_JSON);
    v.extend(zp6::registry());
    rej.push(zp6::ZOO_REJECTED_JSON);
    v.extend(zp7::registry());
    rej.push(zp7::ZOO_REJECTED_JSON);
    let _ = rej;
    v.sort_by_key(|e| (e.module_index, e.order));
    v
}

/// modules the front end rejected or panicked on at build time (JSON arrays, one per part)
pub fn rejected() -> Vec<&'static str> {
    vec![zp0::ZOO_REJECTED_JSON, zp1::ZOO_REJECTED_JSON, zp2::ZOO_REJECTED_JSON, zp3::ZOO_REJECTED_JSON, zp4::ZOO_REJECTED_JSON, zp5::ZOO_REJECTED_JSON, zp6::ZOO_REJECTED_JSON, zp7::ZOO_REJECTED_JSON]
}

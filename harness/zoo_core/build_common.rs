// Shared build script of the zoo parts (include!d with PART / PARTS defined).
// For every enumerated zoo module assigned to this part: print it -> REAL front end + generator (the
// function the asn_to_rust! macro calls) -> .rs file, plus FromValue/ToValue impls derived from the
// generated items (syn), plus a registry of monomorphised ops. rustc then runs the REAL #[asn]
// attribute macro on the included files.

use quote::ToTokens;
use std::fmt::Write as _;
use std::path::PathBuf;

fn is_option(ty: &syn::Type) -> bool {
    if let syn::Type::Path(p) = ty {
        if let Some(seg) = p.path.segments.last() {
            return seg.ident == "Option";
        }
    }
    false
}

fn main() {
    let out_dir = PathBuf::from(std::env::var("OUT_DIR").unwrap());
    let thorough = std::env::var("CARGO_FEATURE_THOROUGH").is_ok();
    let zoo = vbase::zoo_def::zoo();
    // deterministic balanced assignment of the enabled modules to parts (largest first)
    let mut enabled: Vec<usize> = (0..zoo.len()).filter(|i| zoo[*i].quick || thorough).collect();
    enabled.sort_by_key(|i| (std::cmp::Reverse(zoo[*i].module.defs.len()), *i));
    let mut load = vec![0usize; PARTS];
    let mut mine = vec![];
    for i in enabled {
        let p = (0..PARTS).min_by_key(|p| (load[*p], *p)).unwrap();
        load[p] += zoo[i].module.defs.len() + 1;
        if p == PART {
            mine.push(i);
        }
    }
    mine.sort();
    let mut registry = String::new();
    let mut mods = String::new();
    let mut rejected = vec![];
    let mut n_types = 0usize;
    std::panic::set_hook(Box::new(|_| {}));
    for idx in mine {
        let zm = &zoo[idx];
        let text = zm.module.asn();
        let gen = std::panic::catch_unwind(|| asn1rs_model::proc_macro::asn_to_rust(&text));
        let code = match gen {
            Ok(c) => c,
            Err(p) => {
                let msg = p.downcast_ref::<String>().cloned().or_else(|| p.downcast_ref::<&str>().map(|s| s.to_string())).unwrap_or_default();
                rejected.push(serde_json::json!({"module": zm.id, "error": msg, "asn": text}));
                continue;
            }
        };
        let file = match syn::parse_file(&code) {
            Ok(f) => f,
            Err(e) => {
                rejected.push(serde_json::json!({"module": zm.id, "error": format!("generated code does not parse: {e}"), "asn": text}));
                continue;
            }
        };
        let mut conv = String::new();
        let mut idents = vec![];
        for item in &file.items {
            match item {
                syn::Item::Struct(s) => {
                    let name = s.ident.to_string();
                    idents.push(name.clone());
                    match &s.fields {
                        syn::Fields::Named(named) => {
                            let mut from = String::new();
                            let mut to = String::new();
                            for (i, f) in named.named.iter().enumerate() {
                                let fname = f.ident.as_ref().unwrap().to_token_stream().to_string().replace(' ', "");
                                if is_option(&f.ty) {
                                    writeln!(from, "            {fname}: s[{i}].as_ref().map(FromValue::from_value),").unwrap();
                                    writeln!(to, "            self.{fname}.as_ref().map(|x| x.to_value()),").unwrap();
                                } else {
                                    writeln!(from, "            {fname}: FromValue::from_value(s[{i}].as_ref().expect(\"component {fname} of {name} must be present\")),").unwrap();
                                    writeln!(to, "            Some(self.{fname}.to_value()),").unwrap();
                                }
                            }
                            let n = named.named.len();
                            writeln!(conv, "impl FromValue for {name} {{\n    fn from_value(v: &Value) -> Self {{\n        let s = match v {{ Value::Seq(s) => s, other => panic!(\"{name}: expected Seq, got {{other:?}}\") }};\n        assert_eq!(s.len(), {n}, \"{name}: component count\");\n        let _ = s;\n        {name} {{\n{from}        }}\n    }}\n}}").unwrap();
                            writeln!(conv, "impl ToValue for {name} {{\n    fn to_value(&self) -> Value {{\n        Value::Seq(vec![\n{to}        ])\n    }}\n}}").unwrap();
                        }
                        syn::Fields::Unnamed(_) => {
                            writeln!(conv, "impl FromValue for {name} {{ fn from_value(v: &Value) -> Self {{ {name}(FromValue::from_value(v)) }} }}").unwrap();
                            writeln!(conv, "impl ToValue for {name} {{ fn to_value(&self) -> Value {{ self.0.to_value() }} }}").unwrap();
                        }
                        syn::Fields::Unit => {
                            writeln!(conv, "impl FromValue for {name} {{ fn from_value(_: &Value) -> Self {{ {name} }} }}").unwrap();
                            writeln!(conv, "impl ToValue for {name} {{ fn to_value(&self) -> Value {{ Value::Seq(vec![]) }} }}").unwrap();
                        }
                    }
                }
                syn::Item::Enum(e) => {
                    let name = e.ident.to_string();
                    idents.push(name.clone());
                    let data = e.variants.iter().any(|v| !matches!(v.fields, syn::Fields::Unit));
                    if data {
                        let mut from = String::new();
                        let mut to = String::new();
                        for (i, v) in e.variants.iter().enumerate() {
                            let vn = v.ident.to_string();
                            writeln!(from, "            {i} => {name}::{vn}(FromValue::from_value(inner)),").unwrap();
                            writeln!(to, "            {name}::{vn}(x) => Value::Choice({i}, Box::new(x.to_value())),").unwrap();
                        }
                        writeln!(conv, "impl FromValue for {name} {{\n    fn from_value(v: &Value) -> Self {{\n        let (i, inner) = match v {{ Value::Choice(i, inner) => (*i, &**inner), other => panic!(\"{name}: expected Choice, got {{other:?}}\") }};\n        match i {{\n{from}            _ => panic!(\"{name}: alternative index {{i}} out of range\"),\n        }}\n    }}\n}}").unwrap();
                        writeln!(conv, "impl ToValue for {name} {{\n    fn to_value(&self) -> Value {{\n        match self {{\n{to}        }}\n    }}\n}}").unwrap();
                    } else {
                        let mut from = String::new();
                        let mut to = String::new();
                        for (i, v) in e.variants.iter().enumerate() {
                            let vn = v.ident.to_string();
                            writeln!(from, "            Value::Enum({i}) => {name}::{vn},").unwrap();
                            writeln!(to, "            {name}::{vn} => Value::Enum({i}),").unwrap();
                        }
                        writeln!(conv, "impl FromValue for {name} {{\n    fn from_value(v: &Value) -> Self {{\n        match v {{\n{from}            other => panic!(\"{name}: bad enum value {{other:?}}\"),\n        }}\n    }}\n}}").unwrap();
                        writeln!(conv, "impl ToValue for {name} {{\n    fn to_value(&self) -> Value {{\n        match self {{\n{to}        }}\n    }}\n}}").unwrap();
                    }
                }
                _ => {}
            }
        }
        let path = out_dir.join(format!("m_{}.rs", zm.id));
        std::fs::write(&path, format!("{code}\n// ---- harness conversions (generated by the zoo build script from the items above) ----\n{conv}")).unwrap();
        writeln!(mods, "#[allow(unused_imports, dead_code, non_camel_case_types, clippy::all)]\npub mod m_{id} {{\n    use zoo_core::conv::*;\n    include!(concat!(env!(\"OUT_DIR\"), \"/m_{id}.rs\"));\n}}", id = zm.id).unwrap();
        for (order, d) in zm.module.defs.iter().enumerate() {
            if !idents.contains(&d.name) {
                panic!("zoo naming rule violated: definition {} of module {} has no generated item of that name (items: {:?})", d.name, zm.id, idents);
            }
            writeln!(registry, "        Entry {{ module_index: {idx}, order: {order}, module_id: \"{}\", def: \"{}\", ops: &Ops::<m_{}::{}>(PhantomData) }},", zm.id, d.name, zm.id, d.name).unwrap();
            n_types += 1;
        }
    }
    let reg = format!("{mods}\npub fn registry() -> Vec<Entry> {{\n    vec![\n{registry}    ]\n}}\npub const ZOO_TYPES: usize = {n_types};\npub const ZOO_REJECTED_JSON: &str = {:?};\n", serde_json::to_string(&rejected).unwrap());
    std::fs::write(out_dir.join("registry.rs"), reg).unwrap();
    println!("cargo:rerun-if-changed=build.rs");
    println!("cargo:rerun-if-changed=../../zoo_core/build_common.rs");
}

//! Shared part of the compiled zoo: value conversions and the monomorphised operations
//! (DESIGN.md 3.4).

use asn1rs::descriptor::{Readable, Writable};
use asn1rs::prelude::*;
use asn1rs::rw::{Bits, UperReader, UperWriter};
use std::marker::PhantomData;
pub use vbase::schema::Value;

pub mod conv {
    pub use asn1rs::prelude::*;
    pub use vbase::schema::Value;

    pub trait FromValue: Sized {
        fn from_value(v: &Value) -> Self;
    }
    pub trait ToValue {
        fn to_value(&self) -> Value;
    }

    macro_rules! ints {
        ($($t:ident),+) => {$(
            impl FromValue for $t {
                fn from_value(v: &Value) -> Self {
                    match v { Value::Int(i) => *i as $t, other => panic!("expected Int, got {other:?}") }
                }
            }
            impl ToValue for $t {
                fn to_value(&self) -> Value { Value::Int(*self as i128) }
            }
        )+};
    }
    ints!(u8, u16, u32, u64, i8, i16, i32, i64);

    impl FromValue for bool {
        fn from_value(v: &Value) -> Self {
            match v {
                Value::Bool(b) => *b,
                other => panic!("expected Bool, got {other:?}"),
            }
        }
    }
    impl ToValue for bool {
        fn to_value(&self) -> Value {
            Value::Bool(*self)
        }
    }
    impl FromValue for String {
        fn from_value(v: &Value) -> Self {
            match v {
                Value::Str(s) => s.clone(),
                other => panic!("expected Str, got {other:?}"),
            }
        }
    }
    impl ToValue for String {
        fn to_value(&self) -> Value {
            Value::Str(self.clone())
        }
    }
    impl FromValue for Null {
        fn from_value(_: &Value) -> Self {
            Null
        }
    }
    impl ToValue for Null {
        fn to_value(&self) -> Value {
            Value::Null
        }
    }
    impl FromValue for BitVec {
        fn from_value(v: &Value) -> Self {
            match v {
                Value::Bits(b) => BitVec::from_bytes(vbase::refbits::pack(b), b.len() as u64),
                other => panic!("expected Bits, got {other:?}"),
            }
        }
    }
    impl ToValue for BitVec {
        fn to_value(&self) -> Value {
            let n = self.bit_len() as usize;
            let bytes = self.as_byte_slice();
            // a BitVec compares (==) with its whole last octet: non-zero bits behind bit_len, or octets beyond the
            // last one, make two "equal" bit strings differ for the user. Such a value maps to no abstract value.
            let all = vbase::refbits::unpack(bytes);
            if all.len() > n && all[n..].iter().any(|b| *b) || bytes.len() > (n + 7) / 8 {
                return Value::Choice(usize::MAX, Box::new(Value::Bits(all)));
            }
            Value::Bits(vbase::refbits::unpack_n(bytes, n))
        }
    }
    // OCTET STRING and SEQUENCE OF INTEGER(0..255) share Vec<u8>: both value forms are accepted,
    // the canonical (normalized) form is List(Int)
    impl<T: FromValue> FromValue for Vec<T> {
        fn from_value(v: &Value) -> Self {
            match v {
                Value::List(l) => l.iter().map(T::from_value).collect(),
                Value::Bytes(b) => b.iter().map(|x| T::from_value(&Value::Int(*x as i128))).collect(),
                other => panic!("expected List/Bytes, got {other:?}"),
            }
        }
    }
    impl<T: ToValue> ToValue for Vec<T> {
        fn to_value(&self) -> Value {
            Value::List(self.iter().map(|x| x.to_value()).collect())
        }
    }
}

use conv::{FromValue, ToValue};

/// (error kind name, kind with payload)
pub type PerErr = (String, String);

fn per_err(e: asn1rs::protocol::per::Error) -> PerErr {
    (vbase::subject::per_kind_name(e.kind()).to_string(), vbase::subject::per_err_kind(&e))
}

pub trait TypeOps: Sync {
    /// abstract value -> generated Rust value -> abstract value (normalized); tells whether the
    /// generated type can represent the value
    fn reflect(&self, v: &Value) -> Value;
    fn debug(&self, v: &Value) -> String;
    fn uper_write(&self, w: &mut UperWriter, v: &Value) -> Result<(), PerErr>;
    fn uper_read(&self, r: &mut UperReader<Bits<'_>>) -> Result<Value, PerErr>;
    /// decode and return only the Debug rendering of the outcome (for large sweeps)
    fn uper_read_debug(&self, r: &mut UperReader<Bits<'_>>) -> Result<String, PerErr>;
    #[cfg(feature = "descriptive")]
    fn uper_read_has_description(&self, r: &mut UperReader<Bits<'_>>) -> Option<bool>;
    #[cfg(feature = "protobuf")]
    fn proto(&self) -> &dyn proto::ProtoOps;
}

pub struct Ops<T>(pub PhantomData<T>);
unsafe impl<T> Sync for Ops<T> {}

impl<T: Readable + Writable + FromValue + ToValue + std::fmt::Debug + PartialEq + 'static> TypeOps for Ops<T> {
    fn reflect(&self, v: &Value) -> Value {
        T::from_value(v).to_value().normalize()
    }
    fn debug(&self, v: &Value) -> String {
        format!("{:?}", T::from_value(v))
    }
    fn uper_write(&self, w: &mut UperWriter, v: &Value) -> Result<(), PerErr> {
        let t = T::from_value(v);
        w.write(&t).map_err(per_err)
    }
    fn uper_read(&self, r: &mut UperReader<Bits<'_>>) -> Result<Value, PerErr> {
        r.read::<T>().map(|t| t.to_value().normalize()).map_err(per_err)
    }
    fn uper_read_debug(&self, r: &mut UperReader<Bits<'_>>) -> Result<String, PerErr> {
        r.read::<T>().map(|t| capped_debug(&t)).map_err(per_err)
    }
    #[cfg(feature = "descriptive")]
    fn uper_read_has_description(&self, r: &mut UperReader<Bits<'_>>) -> Option<bool> {
        match r.read::<T>() {
            Ok(_) => None,
            Err(e) => Some(!e.scope_description().is_empty()),
        }
    }
    #[cfg(feature = "protobuf")]
    fn proto(&self) -> &dyn proto::ProtoOps {
        self
    }
}

/// Debug rendering capped at 2048 characters + a hash and the length of the complete rendering up to
/// 64 Ki characters (large decoded values must not dominate the cost of a sweep).
pub fn capped_debug<T: std::fmt::Debug>(t: &T) -> String {
    use std::fmt::Write;
    struct Cap {
        head: String,
        hash: u64,
        len: usize,
    }
    impl Write for Cap {
        fn write_str(&mut self, s: &str) -> std::fmt::Result {
            if self.len > 65536 {
                return Err(std::fmt::Error);
            }
            for b in s.bytes() {
                self.hash ^= b as u64;
                self.hash = self.hash.wrapping_mul(0x100000001b3);
            }
            if self.head.len() < 2048 {
                self.head.push_str(s);
            }
            self.len += s.len();
            Ok(())
        }
    }
    let mut c = Cap { head: String::new(), hash: 0xcbf29ce484222325, len: 0 };
    let _ = write!(c, "{t:?}");
    if c.len <= 2048 {
        c.head
    } else {
        format!("{}…[{} chars, fnv {:016x}]", c.head, c.len, c.hash)
    }
}

#[cfg(feature = "protobuf")]
pub mod proto;

pub struct Entry {
    pub module_index: usize,
    pub order: usize,
    pub module_id: &'static str,
    pub def: &'static str,
    pub ops: &'static dyn TypeOps,
}

//! Protobuf operations of a zoo type (feature `protobuf`): the growable writer, the fixed-slice
//! writer and the reader of the subject, on abstract values.

use super::conv::{FromValue, ToValue};
use super::Ops;
use asn1rs::descriptor::{Readable, Writable};
use asn1rs::prelude::*;
use asn1rs::protocol::protobuf::Error;
use vbase::schema::Value;

/// variant name only (the payloads hold eagerly resolved backtraces)
pub fn err_kind(e: &Error) -> String {
    match e {
        Error::Io(_, io) => format!("Io({:?})", io.kind()),
        Error::InvalidUtf8Received => "InvalidUtf8Received".into(),
        Error::MissingRequiredField(n) => format!("MissingRequiredField({n})"),
        Error::InvalidTagReceived(_, t) => format!("InvalidTagReceived({t})"),
        Error::InvalidFormat(_, f) => format!("InvalidFormat({f})"),
        Error::InvalidVariant(_, v) => format!("InvalidVariant({v})"),
        Error::UnexpectedFormat(_, f) => format!("UnexpectedFormat({f:?})"),
        Error::UnexpectedTag(_, t) => format!("UnexpectedTag({t:?})"),
    }
}

pub struct SliceWrite {
    pub as_bytes: Vec<u8>,
    pub len_written: usize,
    pub into_bytes_vec: Vec<u8>,
    /// the caller's buffer after the write
    pub buffer: Vec<u8>,
}

pub trait ProtoOps {
    fn write_vec(&self, v: &Value) -> Result<Vec<u8>, String>;
    /// writes into a caller-provided slice of `cap` octets pre-filled with 0xA5
    fn write_slice(&self, v: &Value, cap: usize) -> Result<SliceWrite, String>;
    fn read(&self, bytes: &[u8]) -> Result<Value, String>;
}

impl<T: Readable + Writable + FromValue + ToValue + std::fmt::Debug + PartialEq + 'static> ProtoOps for Ops<T> {
    fn write_vec(&self, v: &Value) -> Result<Vec<u8>, String> {
        let t = T::from_value(v);
        let mut w = ProtobufWriter::default();
        w.write(&t).map_err(|e| err_kind(&e))?;
        let a = w.as_bytes().to_vec();
        let n = w.len_written();
        let b = w.into_bytes_vec();
        if a != b || n != b.len() {
            return Err(format!("harness-observed: as_bytes ({} octets), len_written {n} and into_bytes_vec ({} octets) disagree", a.len(), b.len()));
        }
        Ok(b)
    }
    fn write_slice(&self, v: &Value, cap: usize) -> Result<SliceWrite, String> {
        let t = T::from_value(v);
        let mut buf = vec![0xA5u8; cap];
        let (as_bytes, len_written, into_bytes_vec) = {
            let mut w = ProtobufWriter::from(&mut buf[..]);
            w.write(&t).map_err(|e| err_kind(&e))?;
            (w.as_bytes().to_vec(), w.len_written(), w.into_bytes_vec())
        };
        Ok(SliceWrite { as_bytes, len_written, into_bytes_vec, buffer: buf })
    }
    fn read(&self, bytes: &[u8]) -> Result<Value, String> {
        let mut r = ProtobufReader::from(bytes);
        r.read::<T>().map(|t| t.to_value().normalize()).map_err(|e| err_kind(&e))
    }
}

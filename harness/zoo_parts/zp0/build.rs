// part 0 of 8 of the zoo; all logic is shared
const PART: usize = 0;
const PARTS: usize = 8;
include!("../../zoo_core/build_common.rs");

// part 3 of 8 of the zoo; all logic is shared
const PART: usize = 3;
const PARTS: usize = 8;
include!("../../zoo_core/build_common.rs");

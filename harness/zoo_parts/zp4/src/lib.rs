//! one part of the compiled zoo (see zoo_core and zoo)
use std::marker::PhantomData;
use zoo_core::{Entry, Ops};
include!(concat!(env!("OUT_DIR"), "/registry.rs"));

#!/bin/bash
# MANIFEST.setup_cmd: offline build of the harness workspace against /repo's current tree.
set -e
export CARGO_NET_OFFLINE=true
export CARGO_TARGET_DIR=/verif/.target
cd /verif/harness
cargo build --release --offline --workspace 2>&1 | tail -3
echo "setup ok"

#!/bin/bash
# MANIFEST.setup_cmd: offline build of the harness workspace against /repo's current tree.
set -e
export CARGO_NET_OFFLINE=true
cd /verif/harness
# each engine is built the way ./check builds it (per package, so that cargo does not unify features)
for p in e_bits e_prim e_uper e_decode e_front e_codegen e_proto; do
  if [ -d "$p" ]; then CARGO_TARGET_DIR=/verif/.target cargo build --release --offline -q -p "$p" 2>&1 | tail -3; fi
done
# C19: second build of the decoder engine with the subject's descriptive-deserialize-errors feature
CARGO_TARGET_DIR=/verif/.target_desc cargo build --release --offline -q -p e_decode --features descriptive 2>&1 | tail -3
# C09: warm the scratch workspace's target directory (asn1rs + proc macros for `cargo check`)
cd /verif && ./check C09 quick >/dev/null 2>&1 || true
git -C /verif checkout -q -- evidence/C09.json 2>/dev/null || true
echo "setup ok"

#!/usr/bin/env python3
"""adopt_seeded.py <PID> <n> [<srcroot> [<as-n>]]: copy a confirmed sub-agent change from <srcroot>/<PID>
(default /tmp/mut/out) to /verif/seeded/<PID>-<as-n>/ (default <n>)"""
import json, os, re, shutil, sys
pid, n = sys.argv[1], sys.argv[2]
root = sys.argv[3] if len(sys.argv) > 3 else "/tmp/mut/out"
asn = sys.argv[4] if len(sys.argv) > 4 else n
src = f"{root}/{pid}"
dst = f"/verif/seeded/{pid}-{asn}"
conf = open(f"{src}/confirm{n}.txt").read()
if "VERDICT: CONFIRMED" not in conf:
    print(f"{pid}-{n}: not confirmed, not adopted"); sys.exit(1)
os.makedirs(dst, exist_ok=True)
patch = f"{src}/patch{n}.rebased.diff" if os.path.exists(f"{src}/patch{n}.rebased.diff") and os.path.getsize(f"{src}/patch{n}.rebased.diff") > 0 else f"{src}/patch{n}.diff"
shutil.copy(patch, f"{dst}/patch.diff")
if os.path.exists(f"{src}/demo{n}.rs"): shutil.copy(f"{src}/demo{n}.rs", f"{dst}/demo.rs")
notes = open(f"{src}/notes{n}.md").read() if os.path.exists(f"{src}/notes{n}.md") else ""
open(f"{dst}/notes.md", "w").write(notes)
head = re.search(r"repo HEAD: (\w+)", conf)
meta_path = f"{dst}/meta.json"
old = json.load(open(meta_path)) if os.path.exists(meta_path) else {}
meta = {
  "id": f"{pid}-{asn}",
  "breaks_property": pid,
  "origin": "fresh sub-agent given only the property text and its own scratch worktree of /repo (nothing from /verif)",
  "what_it_needs_to_manifest": old.get("what_it_needs_to_manifest", "see notes.md (written by the sub-agent)"),
  "confirmed": {
     "against_repo_commit": head.group(1) if head else "?",
     "how": "tools/confirm_seeded.sh in a scratch worktree under /tmp/sw (removed afterwards): patch applies; cargo test --workspace --no-fail-fast --offline still 317 passed / only the 3 always-fail walker tests failing; demo.rs (as tests/seeded_demo_N.rs) FAILS with the patch and PASSES on the pristine tree",
     "log": conf.strip().splitlines()[-8:],
  },
  "detected_by": old.get("detected_by", "pending (see seeded/RESULTS.md)"),
}
json.dump(meta, open(meta_path, "w"), indent=1)
if os.path.exists(f"{src}/features{n}"): shutil.copy(f"{src}/features{n}", f"{dst}/features")
elif "features protobuf" in notes: open(f"{dst}/features", "w").write("protobuf")
print(f"adopted {pid}-{asn}")

#!/bin/bash
# confirm_seeded.sh <out_dir_with_patchN_demoN> <N> <name>
# Confirms in a scratch worktree of /repo HEAD (outside /repo and /verif, removed afterwards) that
#  (1) the demo passes on the pristine tree, (2) the patch applies and the full suite is still green,
#  (3) the demo fails with the patch. Writes <out_dir>/confirm<N>.txt with the verdict.
src="$1"; n="$2"; name="$3"
wt=/tmp/sw/$name
log="$src/confirm$n.txt"
rm -rf "$wt"; mkdir -p /tmp/sw
git -C /repo worktree add -q --detach "$wt" HEAD || { echo "WORKTREE-FAILED" > "$log"; exit 1; }
cd "$wt"
export CARGO_NET_OFFLINE=true
demo="$src/demo$n.rs"
tname="seeded_demo_$n"
{
echo "repo HEAD: $(git -C /repo rev-parse --short HEAD)"
if [ -f "$demo" ]; then cp "$demo" tests/$tname.rs; elif [ -d "$src/demo$n" ]; then cp "$src/demo$n"/*.rs tests/ ; tname=$(basename $(ls "$src/demo$n"/*.rs | head -1) .rs); fi
echo "== demo on pristine"
cargo test --offline --test $tname 2>&1 | grep -E "^test result|^error" | head -5
pr=$(cargo test --offline --test $tname 2>&1 | grep -cE "^test result: ok")
echo "== apply patch"
if ! git apply --3way "$src/patch$n.diff" 2>&1; then
  if ! patch -p1 --fuzz=3 < "$src/patch$n.diff"; then echo "VERDICT: PATCH-DOES-NOT-APPLY"; cd /; git -C /repo worktree remove --force "$wt"; exit 0; fi
fi
git diff --stat | tail -1
echo "== suite with patch"
/verif/tools/repo_suite.sh "$wt" | tail -3
suite_ok=$(/verif/tools/repo_suite.sh "$wt" | grep -c "SUITE OK")
echo "== demo with patch"
cargo test --offline --test $tname 2>&1 | grep -E "^test result|^error" | head -5
ch=$(cargo test --offline --test $tname 2>&1 | grep -cE "^test result: FAILED|^error")
git diff -- . ':!tests' > "$src/patch$n.rebased.diff"
if [ "$pr" -ge 1 ] && [ "$suite_ok" -ge 1 ] && [ "$ch" -ge 1 ]; then echo "VERDICT: CONFIRMED"; else echo "VERDICT: NOT-CONFIRMED pristine_demo_ok=$pr suite_ok=$suite_ok demo_fails_with_patch=$ch"; fi
} > "$log" 2>&1
cd /
git -C /repo worktree remove --force "$wt"
tail -1 "$log"

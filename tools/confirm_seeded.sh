#!/bin/bash
# confirm_seeded.sh <out_dir_with_patchN_demoN> <N> <name>
# Confirms in a scratch worktree of /repo HEAD (outside /repo and /verif, removed afterwards) that
#  (1) the patch applies and the full suite is still green, (2) the demo fails with the patch,
#  (3) the demo passes on the pristine tree. Writes <out_dir>/confirm<N>.txt with the verdict.
src="$1"; n="$2"; name="$3"
wt=/tmp/sw/$name
log="$src/confirm$n.txt"
rm -rf "$wt"; mkdir -p /tmp/sw
git -C /repo worktree add -q --detach "$wt" HEAD || { echo "WORKTREE-FAILED" > "$log"; exit 1; }
cd "$wt"
export CARGO_NET_OFFLINE=true
demo="$src/demo$n.rs"
tname="seeded_demo_$n"
feat=""
grep -qi "features protobuf" "$src/notes$n.md" 2>/dev/null && feat="--features protobuf"
grep -qi "features descriptive-deserialize-errors" "$src/notes$n.md" 2>/dev/null && feat="--features descriptive-deserialize-errors"
[ -f "$src/features$n" ] && feat="--features $(cat $src/features$n)"
{
echo "repo HEAD: $(git -C /repo rev-parse --short HEAD)"
echo "== apply patch"
if ! git apply --3way "$src/patch$n.diff" 2>&1; then
  if ! patch -p1 --fuzz=3 < "$src/patch$n.diff"; then echo "VERDICT: PATCH-DOES-NOT-APPLY"; cd /; git -C /repo worktree remove --force "$wt"; exit 0; fi
fi
git reset -q
git diff --stat | tail -1
git diff > "$src/patch$n.rebased.diff"
echo "== suite with patch"
so=$(/verif/tools/repo_suite.sh "$wt"); echo "$so" | tail -3
suite_ok=$(echo "$so" | grep -c "SUITE OK")
if [ -f "$demo" ]; then cp "$demo" tests/$tname.rs; fi
echo "== demo with patch"
d1=$(cargo test --offline $feat --test $tname 2>&1); echo "$d1" | grep -E "^test result|^error" | head -5
ch=$(echo "$d1" | grep -cE "^test result: FAILED|^error")
echo "== demo on pristine"
git checkout -q -- src asn1rs-model asn1rs-macros Cargo.toml 2>/dev/null
d2=$(cargo test --offline $feat --test $tname 2>&1); echo "$d2" | grep -E "^test result|^error" | head -5
pr=$(echo "$d2" | grep -cE "^test result: ok")
bad=$(echo "$d2" | grep -cE "^test result: FAILED|^error")
if [ "$pr" -ge 1 ] && [ "$bad" -eq 0 ] && [ "$suite_ok" -ge 1 ] && [ "$ch" -ge 1 ]; then echo "VERDICT: CONFIRMED"; else echo "VERDICT: NOT-CONFIRMED pristine_demo_ok=$pr pristine_demo_bad=$bad suite_ok=$suite_ok demo_fails_with_patch=$ch"; fi
} > "$log" 2>&1
cd /
git -C /repo worktree remove --force "$wt"
tail -1 "$log"

#!/usr/bin/env python3
"""fill_detected.py: copies, for every seeded change, the row of seeded/RESULTS.md (written by
tools/seeded_selftest.sh) into seeded/<id>/meta.json as `detected_by`."""
import json, os, re
root = os.path.dirname(os.path.dirname(os.path.abspath(__file__)))
rows = {}
for line in open(f"{root}/seeded/RESULTS.md"):
    m = re.match(r"\| (C\d+-\d+) \| (C\d+) \| (.*?) \| (.*) \|$", line.rstrip())
    if m:
        rows[m.group(1)] = (m.group(3).strip(), m.group(4).strip())
n = 0
for d in sorted(os.listdir(f"{root}/seeded")):
    p = f"{root}/seeded/{d}/meta.json"
    if not os.path.exists(p) or d not in rows:
        continue
    meta = json.load(open(p))
    res, first = rows[d]
    checks = re.findall(r"--- (C\d+) exit=(\d+)", res)
    hit = [c for c, rc in checks if rc == "1"]
    meta["detected_by"] = {
        "quick_checks_that_report_a_violation": hit,
        "checks_run": [c for c, _ in checks],
        "first_violation_line": first,
        "source": "seeded/RESULTS.md (tools/seeded_selftest.sh: change applied to /repo, quick check run, change undone)",
    }
    json.dump(meta, open(p, "w"), indent=1)
    n += 1
print(f"updated {n} meta files")

#!/usr/bin/env python3
"""Generates /verif/MANIFEST.json from the table below (single source of truth for the claims)."""
import json, os
ROOT = os.path.dirname(os.path.dirname(os.path.abspath(__file__)))

CHECKS = {
 "C11": dict(engine="e_bits", category="model_checking", design="5/C11",
   technique="bounded-exhaustive enumeration of single copies + explicit-state BFS over operation histories on the real BitBuffer/Bits, compared step by step with a Vec<bool> model",
   text="Every (direction, entry point, source bytes, source bit offset, destination bytes, destination bit position, length) for buffers up to 4 (quick) / 5 (thorough) bytes is executed on the real slice-tuple BitRead/BitWrite impls; every operation history up to the stated depth over a 37-operation alphabet is executed on the real BitBuffer (and, to a fixpoint, on the Bits read view) with exact state deduplication; each step is compared with a bit-vector model (copied bits, untouched neighbours, cursor, Err instead of panic, growth invariant). Inside the bound the claim is complete; beyond it nothing is claimed.",
   note="Trusted: the Vec<bool> model in vcore::refbits (60 lines); BitBuffer's read position is observed through its Debug output."),
}

NOT_YET = {
}

def main():
    props = [json.loads(l) for l in open(os.path.join(ROOT, "properties.jsonl"))]
    checks, na = [], []
    for p in props:
        pid = p["id"]
        if pid in CHECKS:
            c = CHECKS[pid]
            checks.append({
                "property_id": pid,
                "quick_cmd": f"./check {pid} quick",
                "thorough_cmd": f"./check {pid} thorough",
                "evidence_file": f"/verif/evidence/{pid}.json",
                "replay_cmd_template": f"./check {pid} --replay {{path}}",
                "engine": c["engine"],
                "level_claimed": {"category": c["category"], "text": c["text"], "design_ref": f"DESIGN.md section {c['design']}"},
                "level_note": c["note"],
                "technique": c["technique"],
            })
        else:
            na.append({"property_id": pid, "reason": NOT_YET.get(pid, "check not built yet in this revision (bounded-exhaustive design in DESIGN.md section 5); not claimed until its engine exists")})
    engines = {}
    for pid, c in CHECKS.items():
        engines.setdefault(c["engine"], []).append(pid)
    m = {
        "version": 1,
        "setup_cmd": "./setup.sh",
        "hooks": {
            "guard": "asn1rs_verif (reserved cfg; no hook is needed: every observation point is public API)",
            "enable": "none - checks build /repo's crates as cargo path dependencies of /verif/harness, unmodified",
            "baseline_off_cmd": "/verif/tools/repo_suite.sh",
            "source_commits": [],
            "add_only": True,
        },
        "engines": [{"name": e, "path": f"/verif/harness/{e}", "serves_properties": sorted(ps),
                     "kind_free_text": "Rust binary; bounded-exhaustive enumeration / explicit-state BFS of the real code against reference models in vcore"} for e, ps in sorted(engines.items())],
        "checks": checks,
        "not_applicable": na,
        "notes": "All checks: ./check <ID> quick|thorough (python3 driver -> cargo build --release --offline of the engine against /repo's working tree -> engine). Exit 0/1 per contract; 2 = machinery error, 3 = subject or generated code does not build. Known findings: /verif/known_findings.json. Seeded property-breaking changes: /verif/seeded/.",
    }
    json.dump(m, open(os.path.join(ROOT, "MANIFEST.json"), "w"), indent=1)
    print(f"claimed={len(checks)} not_applicable={len(na)}")

main()

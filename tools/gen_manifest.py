#!/usr/bin/env python3
"""Generates /verif/MANIFEST.json from the table below (single source of truth for the claims)."""
import json, os
ROOT = os.path.dirname(os.path.dirname(os.path.abspath(__file__)))

CHECKS = {
 "C11": dict(engine="e_bits", category="model_checking", design="5/C11",
   technique="bounded-exhaustive enumeration of single copies + explicit-state BFS over operation histories on the real BitBuffer/Bits, compared step by step with a Vec<bool> model",
   text="Every (direction, entry point, source bytes, source bit offset, destination bytes, destination bit position, length) for buffers up to 4 (quick) / 5 (thorough) bytes is executed on the real slice-tuple BitRead/BitWrite impls; every operation history up to the stated depth over a 37-operation alphabet is executed on the real BitBuffer (and, to a fixpoint, on the Bits read view) with exact state deduplication; each step is compared with a bit-vector model (copied bits, untouched neighbours, cursor, Err instead of panic, growth invariant). Inside the bound the claim is complete; beyond it nothing is claimed.",
   note="Trusted: the Vec<bool> model in vcore::refbits (60 lines); BitBuffer's read position is observed through its Debug output."),
 "C10": dict(engine="e_prim", category="model_checking", design="5/C10",
   technique="bounded-exhaustive enumeration of primitive calls (lb, ub, value/size) on the real PackedWrite/PackedRead, each compared with an independent X.691 reference encoder and read back; swept in worker processes with crash attribution",
   text="Every (lower bound, upper bound, value) with lb in [-40,40] and range <= 300 (thorough; [-8,8] x 64 quick) plus boundary families around every 2^k up to the i64/u64 extremes, every length 0..70000 and the stated constraint grid, every enumeration/choice index for 0..300 root items, and octet/bit strings of every fragment-count class up to 200000 items under nine constraint forms is executed once on the real primitives: bits == refper, the matching read returns the value and consumes exactly the written bits (from the produced and from the reference bits), an exactly-sized slice writer gives the same bits, a one-byte-short one an Err, inadmissible arguments an Err and never a panic/abort/wrapped value.",
   note="Trusted: refper primitives (vcore::refper, ~150 lines for this part) written from X.691 10.3-10.9/11.x, 14, 16, 17; known finding KF-C10-1 is matched by an executable quirk model, anything else inside that class is still a violation."),
 "C20": dict(engine="e_prim", category="exploration", design="5/C20",
   technique="bounded-exhaustive enumeration of DER primitive values, write then read on the real code, identity + exact consumption oracle",
   text="Every length 0..300, +-2 (quick) / +-300 (thorough) around every 2^(7k), 2^(8k) and u64::MAX; every tag of 4 classes x numbers 0..30 as raw identifier and as the tag of a BOOLEAN and an INTEGER TLV; all 8 Rust integer types at their boundary families; BOOLEAN with the value octet set to every 0..255; every index of ENUMERATED types with 1..70000 items: written with the real DER writer, read with the real DER reader from the exact buffer and from the buffer followed by 3 sentinel bytes. Exhaustive inside these sets.",
   note="Oracle is identity + exact byte consumption as the statement says; minimal/canonical DER form is not demanded (the writer's INTEGER content is not minimal two's complement - outside the statement)."),
 "C01": dict(engine="e_uper", category="model_checking", design="5/C01",
   technique="bounded-exhaustive enumeration of (generated type, value, start alignment) on the real generated codecs + explicit-state BFS over histories of messages in one real writer/reader, exact state dedup on the writer's bits",
   text="Every type of the compiled zoo (699 types quick / 4332 thorough: every leaf constraint form of Appendix C, all SEQUENCE/SET shapes with <=3 (<=5) components, containers, the C16 permutations) x every value of its boundary domain (sizes up to 17000 + {65536, 81920} quick, up to 200000 thorough) x every start alignment 0..7 is encoded with the real generated encoder into a pre-loaded writer and decoded again: equal value, 0 bits remaining, earlier bits untouched, encoding independent of the alignment. Histories: BFS over all sequences of <=3 (<=4) messages from a 12-message alphabet written into ONE real writer (content must equal the concatenation of the single encodings in every state) and read back in order from ONE reader.",
   note="The zoo types are produced by the real front end + generator + #[asn] macro at build time (zoo parts' build.rs); value domains are boundary sets, not all values. Known finding KF-Q-NO-FRAG (lists/char strings >= 16K items do not round trip) is selected by schema+value features."),
 "C02": dict(engine="e_uper", category="model_checking", design="4, 5/C02, Appendix A",
   technique="bounded-exhaustive enumeration of (schema, value) on the real generated codecs, compared bit for bit with refper - an independent X.691 reference encoder - in both directions; recorded defects are matched by executable quirk models",
   text="For every zoo type x value: writer(v) == refper(S, v) bit for bit (first differing labelled X.691 field reported) and reader(refper(S, v)) == v with 0 bits remaining. refper itself is re-validated on every run against 37 externally produced ('playground') vectors pinned in the repository's tests. A mismatch is a KNOWN-FINDING only if refper with a minimal set of RECORDED quirk models reproduces the observed bits exactly; anything else - also inside a known-bad class - is a VIOLATION.",
   note="Trusted: refper (vcore::refper, ~600 lines, clause references in DESIGN Appendix A). Conformance profile = DESIGN section 4."),
 "C03": dict(engine="e_uper", category="model_checking", design="5/C03",
   technique="bounded-exhaustive enumeration of every SEQUENCE/SET shape x every presence pattern on the real generated codecs against refper (presence bits, extension bit, open types) plus the refusal rule",
   text="All shapes with <=3 (quick: 362 types, SEQUENCE and SET) / <=5 (thorough: 3035 types) components x {mandatory, OPTIONAL, DEFAULT} x marker {none, before first, after i} x all presence patterns (each OPTIONAL absent/present, each DEFAULT equal/not equal, each addition absent/present): bits == refper (one presence bit per OPTIONAL/DEFAULT root component in order, extension bit iff an addition is encoded), reader on reference bits, round trip (absent stays absent, default-equal decodes to the default), and an encoder Err only as ExtensionFieldsInconsistent and only when the first addition is absent while a later one is present.",
   note="The shapes are compiled through the real generator/macro, so the constants STD_OPTIONAL_FIELDS / EXTENDED_AFTER_FIELD / FIELD_COUNT are the generated ones."),
 "C06": dict(engine="e_uper", category="exploration", design="5/C06",
   technique="bounded-exhaustive enumeration of constraint-violating values (one violated constraint each) on the real generated encoders; validity judged on the abstract constraint",
   text="For every constrained zoo type and every container holding one: integers lb-1, lb-2, lb-2^k, ub+1, ub+2, ub+2^k and the extremes of every Rust integer type; sizes lb-1, 0, ub+1, ub+2, 2ub+1; one illegal character (below / above the alphabet, 2-, 3- and 4-byte scalars, type specific look-alikes) at first / middle / last position of a min-, mid- and max-length string; out-of-range elements and components inside otherwise valid lists, sequences and choices. Non-extensible => Err (never Ok, whatever it decodes to); extensible => Ok, bits == refper (extension form) and round trip.",
   note="Values the generated Rust type cannot hold are skipped and counted (they cannot reach the encoder)."),
 "C05": dict(engine="e_uper", category="model_checking", design="5/C05",
   technique="bounded-exhaustive enumeration of (schema version pair, value, direction) on the real generated codecs of both versions, sentinel appended in the same writer, project/embed oracle on abstract values",
   text="Nine version chains (SEQUENCE with 1 and 2 root components, SET, CHOICE, ENUMERATED, an evolving SEQUENCE nested in an extension addition / in a CHOICE extension alternative / in a root component, and a chain with DEFAULT and OPTIONAL additions), up to 3-4 (quick) / 8 (thorough) appended additions whose encodings cross the open-type length boundary 127/128 (1..300 octets). Every ordered pair (sender version, receiver version) x every value of the sender version (all presence patterns of additions x covering diagonal): the receiver's generated type must decode project/embed(value), report unknown CHOICE/ENUMERATED values only as Err, and end exactly at the end of the message (a sentinel INTEGER written after the message in the same writer decodes to 0xA5 with 0 bits remaining).",
   note="Known finding KF-C05-1 (unknown present additions are not skipped outside open types) is selected by an input predicate; for selected cases the decoded root content is still checked. states = version pairs, transitions = messages exchanged."),
 "C16": dict(engine="e_uper", category="model_checking", design="5/C16",
   technique="bounded-exhaustive enumeration of SET/SEQUENCE definitions (all permutations of subsets of a 13-component tag pool x marker position) through the real front end + generator + attribute parser + expand(), plus the compiled permutations on the wire against refper",
   text="(a) 14716 (quick, <=3 components) / ~2 million (thorough, <=5 components) definitions: the order of write_value calls in write_seq and of the struct-literal fields in read_seq must be the X.680 8.6 canonical order of the root components followed by the additions (SEQUENCE: textual order), and every field's TAG constant the X.680 tag (explicit; the referenced type's own tag incl. untagged SEQUENCE/SET/CHOICE references, SEQUENCE OF / SET OF; automatic 0..n-1 only if no component is tagged). (b) the compiled permutations of <=2 (<=3) components with OPTIONAL members: bits == refper for every presence pattern, which binds call order to wire order and presence-bit order.",
   note="Profile (DESIGN 4.4): extension additions of generated SETs are textually in tag order (X.691 orders additions textually, the statement by tag; they coincide there)."),
 "C04": dict(engine="e_decode", category="fault_enumeration", design="5/C04",
   technique="exhaustive enumeration of all short inputs and of all single (thorough: double) faults of valid encodings, decoded by the real generated readers in worker processes (RLIMIT_AS, allocation meter, hang watchdog, crash attribution), with a differential over bytes beyond the declared length",
   text="For each of 130 (quick) / ~700 (thorough) zoo types: EVERY bit string of every length 0..11 (thorough: 0..16 for the quick types, 0..12 for the rest) and every single fault - each bit flipped, truncation to every shorter length, each byte deleted, bytes 00/FF/80 inserted at each position, each byte overwritten with 00/FF/7F/80/C1/C4 - of up to 5 (10) valid seed encodings (thorough: also pairs of faults on seeds <= 24 bits of the quick types). Every input is decoded three times (zero padded, one padded, followed by FF FF): no panic, abort or hang; no Ok with a reader position beyond the declared length; identical outcome in the three embeddings; largest allocation request <= 256 MiB and peak <= 64 MiB + 4096 x input bytes; bits_remaining()/pos() callable afterwards. DER: every byte string of <= 2 (3) bytes and long-form/oversized length patterns through read_identifier, read_length, read_boolean, read_integer_*, BasicReader::read_boolean/read_number.",
   note="The protobuf reader part of the statement is explored by the C17 engine's fault pass (protobuf feature build). Inputs longer than L bits that are not within 1 (2) faults of a valid encoding are outside the bound."),
 "C19": dict(engine="e_decode", category="exploration", design="5/C19",
   technique="the C04 input space walked exhaustively by two builds of the same engine (feature off / on); per-block outcome digests compared, differing blocks re-walked case by case",
   text="Every input of the C04 UPER space (all bit strings <= 11 / 16 bits and all single faults of valid seeds, per zoo type) is decoded by a binary built without and one built with descriptive-deserialize-errors; (Ok value | ErrorKind variant, reader position) must be identical for every input, and a worker death must occur in both or neither. The feature build is checked to attach non-empty scope descriptions to errors (non-vacuity).",
   note="Two target directories (/verif/.target and /verif/.target_desc), both rebuilt from /repo's working tree by ./check. Only the feature set differs between the builds."),
 "C13": dict(engine="e_front", category="model_checking", design="5/C13",
   technique="deviation-bounded exhaustive search over layouts (default: one space at every lexical boundary; <= d boundaries deviate to another separator of the alphabet), each rendered text run through the real Tokenizer and front end and compared with a reference lexer",
   text="10 seed modules covering every construct of the supported subset (12..110 lexical items). Separator alphabet: tab, newline, CR/LF, two spaces, line comment, block comment, nested / tightly nested / empty block comment, and the empty separator where both neighbours stay distinct items (thorough adds 8 more: multi-line, starred, non-ASCII, dash-containing, depth-3 comments, a line comment containing '/*', a line comment closed by '--'). Every layout with d <= 1 deviations on all seeds and d <= 2 on the seeds with <= 45 items (quick: 244 362 layouts) / d <= 2 on all seeds and d <= 3 on the smallest (thorough: ~4.1 million): the (kind, text) sequence of tokens equals the reference lexer's, every token's location equals the (line, column in characters) where the printer put its first character, and the parsed+resolved model equals the default layout's. A failing layout is classified by the deviations that already fail alone.",
   note="Trusted: the reference lexer e_front::lex (100 lines). Known finding KF-C13-1 (a line comment is not closed by a second '--')."),
 "C14": dict(engine="e_front", category="fault_enumeration", design="5/C14",
   technique="deviation-bounded exhaustive fault enumeration on valid seed modules (token faults, character faults) plus exhaustive token soups, each run through every front-end stage under catch_unwind inside worker processes (abort / hang attribution)",
   text="Every single fault {delete, duplicate, swap with next, truncate after, replace by / insert each of 66 vocabulary words} at every lexical item of 13 seeds (3 of them multi-line with block, nested and line comments, so faults also land inside comments and at line starts); thorough: every PAIR of faults on the seeds with <= 32 items. Every single-character deletion and insertion of each of {}()[],.:=\"'-/*ü at every character position of the short seeds. Every token soup of <= 3 (4) words of a 34-word vocabulary in three syntactic contexts. Stages: tokenize, parse, resolve, to_rust, Rust generator, to_protobuf, .proto generator. Oracle: each stage returns; the tokenizer's documented 'unclosed comment blocks' panic is accepted only if a reference scan confirms that a block comment really is unterminated.",
   note="Panic classes are keyed by (stage, innermost asn1rs_model function from the backtrace, normalised message)."),
 "C15": dict(engine="e_front", category="exploration", design="5/C15",
   technique="exhaustive enumeration of (min, max) over a boundary set B x B (+ MIN/MAX, extensible) through the real front end and generator, compared with an independent narrowest-type function and the generated accessor bodies",
   text="B = {0, +-1, +-2, +-100, +-1000} and +-2^k + d, d in -2..2 (94 values quick, 620 thorough = every k <= 63): every (min <= max) in B x B, (MIN..b), (a..MAX), (MIN..MAX), the unconstrained INTEGER, each plain and extensible, as a top-level type and as a SEQUENCE field: 9 688 (quick) / 775 006 (thorough) definitions. The RustType of the model must be the narrowest standard integer type of the right signedness (64-bit if extensible) and value_min()/value_max() (f_min()/f_max()) must return the declared literal bounds.",
   note="Known findings KF-C15-MIN / KF-C15-UNCONSTRAINED are listed class by class (no wildcard), so e.g. (MIN..negative, ...) - which is right today - stays checked."),
 "C07": dict(engine="e_front", category="model_checking", design="4.3, 5/C07",
   technique="bounded-exhaustive enumeration of abstract modules of grammar F, each printed in three layouts, parsed and resolved by the real front end and compared through a canonical projection of the resulting model",
   text="332 leaf forms (every INTEGER bound class incl. MIN/MAX/extensible, ENUMERATED forms, every SIZE form x BIT/OCTET STRING and the five string types in both SIZE spellings, named numbers/bits, references) x 5 tag forms x 11 component contexts + SEQUENCE OF / SET OF with every SIZE form and spelling; module OIDs in all three component forms, imports, module names, value definitions and DEFAULT literals of every kind, definition order; all depth-2 nestings of 7 containers over 7 leafs: 33 212 (quick) / 43 612 (thorough) modules x 3 layouts (compact, one item per line, commented). project(resolve(parse(text))) must equal the abstract module: definitions in order, kinds, names, ranges with MIN/MAX distinct from literals, named numbers, SIZE with extensibility, tags with class, OPTIONAL/DEFAULT with literal, marker position, imports, OID.",
   note="Normalisations applied to the expected side only: SIZE(n..n) = SIZE(n), SIZE(0..MAX) = none, (MIN..MAX) = none, SIZE spelling, documented module-name suffix stripping. Known findings KF-C07-MARKER-FIRST, KF-C07-ZERO-MAX."),
 "C12": dict(engine="e_front", category="model_checking", design="5/C12",
   technique="deviation-bounded exhaustive search: every subset of literal sites replaced by value references x every placement of the value definitions x every load order, resolved by the real MultiModuleResolver in worker processes and compared with the all-literal module through the C07 projection",
   text="18 base schemas (INTEGER bounds incl. 0 and i64::MAX next to MAX, SIZE lower/upper/fixed/equal/extensible in both spellings and on SEQUENCE OF / SET OF, DEFAULT of INTEGER/BOOLEAN/string, nested types); every subset of <= 2 (quick) / all (thorough) sites; 8 placements (same module before/after use, sibling by name, by OID, by OID with a same-name decoy module of another OID, local definition shadowing an import, differently spelled OID, unrelated module defining the same names); every permutation of the load order. Negative space: undefined / not exported / BOOLEAN or string where an integer is needed must give a resolve error in every order.",
   note="Runs in worker processes because a wrong import match can recurse without bound (stack overflow = abort), which is then attributed to the case instead of killing the check."),
 "C08": dict(engine="e_codegen", category="translation_validation", design="5/C08",
   technique="bounded-exhaustive enumeration of modules; on each one two translations are validated against each other: generator output re-read by the real attribute parser must give the generator's Rust model back, and the constants of the real expand() output must equal constraints computed from the abstract module",
   text="programs: the whole C07 module space (332 leaf forms x tag forms x 11 component contexts, lists with every SIZE form, DEFAULT literals of every kind, named numbers/bits, depth-2 nestings), every SEQUENCE/SET presence/extension shape with <= 4 (quick) / 6 (thorough) components, and the 37 inline modules of the repository's own tests. Oracle 1: for every definition, to_rust_keep_names(parse_asn_definition(attr, item)) of the generated item == to_rust(M) (exact Debug equality; exempt only: own derived tag of an untagged CHOICE, effective tag of T ::= Other, Rust spelling of an enumeration item in a DEFAULT). Oracle 2: sequence/set STD_OPTIONAL_FIELDS, FIELD_COUNT, EXTENDED_AFTER_FIELD; choice/enumerated EXTENSIBLE, STD_VARIANT_COUNT, VARIANT_COUNT; per component/alternative/element integer MIN/MAX/EXTENSIBLE, size MIN/MAX/EXTENSIBLE under the right trait, DEFAULT_VALUE - each compared with the value computed from the abstract module, never from the subject's model.",
   note="Known findings KF-C08-MIN-ZERO, KF-C08-SEMI-63, KF-C08-ZERO-MAX, KF-C08-MARKER-FIRST (the constants faithfully carry the front end's recorded misreadings). Fixed: 3aae80a, be05253."),
}

NOT_YET = {
}

def main():
    props = [json.loads(l) for l in open(os.path.join(ROOT, "properties.jsonl"))]
    checks, na = [], []
    for p in props:
        pid = p["id"]
        if pid in CHECKS:
            c = CHECKS[pid]
            checks.append({
                "property_id": pid,
                "quick_cmd": f"./check {pid} quick",
                "thorough_cmd": f"./check {pid} thorough",
                "evidence_file": f"/verif/evidence/{pid}.json",
                "replay_cmd_template": f"./check {pid} --replay {{path}}",
                "engine": c["engine"],
                "level_claimed": {"category": c["category"], "text": c["text"], "design_ref": f"DESIGN.md section {c['design']}"},
                "level_note": c["note"],
                "technique": c["technique"],
            })
        else:
            na.append({"property_id": pid, "reason": NOT_YET.get(pid, "check not built yet in this revision (bounded-exhaustive design in DESIGN.md section 5); not claimed until its engine exists")})
    engines = {}
    for pid, c in CHECKS.items():
        engines.setdefault(c["engine"], []).append(pid)
    m = {
        "version": 1,
        "setup_cmd": "./setup.sh",
        "hooks": {
            "guard": "asn1rs_verif (reserved cfg; no hook is needed: every observation point is public API)",
            "enable": "none - checks build /repo's crates as cargo path dependencies of /verif/harness, unmodified",
            "baseline_off_cmd": "/verif/tools/repo_suite.sh",
            "source_commits": [],
            "add_only": True,
        },
        "engines": [{"name": e, "path": f"/verif/harness/{e}", "serves_properties": sorted(ps),
                     "kind_free_text": "Rust binary; bounded-exhaustive enumeration / explicit-state BFS of the real code against reference models in vcore"} for e, ps in sorted(engines.items())],
        "checks": checks,
        "not_applicable": na,
        "notes": "All checks: ./check <ID> quick|thorough (python3 driver -> cargo build --release --offline of the engine against /repo's working tree -> engine). Exit 0/1 per contract; 2 = machinery error, 3 = subject or generated code does not build. Known findings: /verif/known_findings.json. Seeded property-breaking changes: /verif/seeded/.",
    }
    json.dump(m, open(os.path.join(ROOT, "MANIFEST.json"), "w"), indent=1)
    print(f"claimed={len(checks)} not_applicable={len(na)}")

main()

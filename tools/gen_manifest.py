#!/usr/bin/env python3
"""Generates /verif/MANIFEST.json from the table below (single source of truth for the claims)."""
import json, os
ROOT = os.path.dirname(os.path.dirname(os.path.abspath(__file__)))

CHECKS = {
 "C11": dict(engine="e_bits", category="model_checking", design="5/C11",
   technique="bounded-exhaustive enumeration of single copies + explicit-state BFS over operation histories on the real BitBuffer/Bits, compared step by step with a Vec<bool> model",
   text="Every (direction, entry point, source bytes, source bit offset, destination bytes, destination bit position, length) for buffers up to 4 (quick) / 5 (thorough) bytes is executed on the real slice-tuple BitRead/BitWrite impls; every operation history up to the stated depth over a 37-operation alphabet is executed on the real BitBuffer (and, to a fixpoint, on the Bits read view) with exact state deduplication; each step is compared with a bit-vector model (copied bits, untouched neighbours, cursor, Err instead of panic, growth invariant). Inside the bound the claim is complete; beyond it nothing is claimed.",
   note="Trusted: the Vec<bool> model in vcore::refbits (60 lines); BitBuffer's read position is observed through its Debug output."),
 "C10": dict(engine="e_prim", category="model_checking", design="5/C10",
   technique="bounded-exhaustive enumeration of primitive calls (lb, ub, value/size) on the real PackedWrite/PackedRead, each compared with an independent X.691 reference encoder and read back; swept in worker processes with crash attribution",
   text="Every (lower bound, upper bound, value) with lb in [-40,40] and range <= 300 (thorough; [-8,8] x 64 quick) plus boundary families around every 2^k up to the i64/u64 extremes, every length 0..70000 and the stated constraint grid, every enumeration/choice index for 0..300 root items, and octet/bit strings of every fragment-count class up to 200000 items under nine constraint forms is executed once on the real primitives: bits == refper, the matching read returns the value and consumes exactly the written bits (from the produced and from the reference bits), an exactly-sized slice writer gives the same bits, a one-byte-short one an Err, inadmissible arguments an Err and never a panic/abort/wrapped value.",
   note="Trusted: refper primitives (vcore::refper, ~150 lines for this part) written from X.691 10.3-10.9/11.x, 14, 16, 17; known finding KF-C10-1 is matched by an executable quirk model, anything else inside that class is still a violation."),
 "C20": dict(engine="e_prim", category="exploration", design="5/C20",
   technique="bounded-exhaustive enumeration of DER primitive values, write then read on the real code, identity + exact consumption oracle",
   text="Every length 0..300, +-2 (quick) / +-300 (thorough) around every 2^(7k), 2^(8k) and u64::MAX; every tag of 4 classes x numbers 0..30 as raw identifier and as the tag of a BOOLEAN and an INTEGER TLV; all 8 Rust integer types at their boundary families; BOOLEAN with the value octet set to every 0..255; every index of ENUMERATED types with 1..70000 items: written with the real DER writer, read with the real DER reader from the exact buffer and from the buffer followed by 3 sentinel bytes. Exhaustive inside these sets.",
   note="Oracle is identity + exact byte consumption as the statement says; minimal/canonical DER form is not demanded (the writer's INTEGER content is not minimal two's complement - outside the statement)."),
}

NOT_YET = {
}

def main():
    props = [json.loads(l) for l in open(os.path.join(ROOT, "properties.jsonl"))]
    checks, na = [], []
    for p in props:
        pid = p["id"]
        if pid in CHECKS:
            c = CHECKS[pid]
            checks.append({
                "property_id": pid,
                "quick_cmd": f"./check {pid} quick",
                "thorough_cmd": f"./check {pid} thorough",
                "evidence_file": f"/verif/evidence/{pid}.json",
                "replay_cmd_template": f"./check {pid} --replay {{path}}",
                "engine": c["engine"],
                "level_claimed": {"category": c["category"], "text": c["text"], "design_ref": f"DESIGN.md section {c['design']}"},
                "level_note": c["note"],
                "technique": c["technique"],
            })
        else:
            na.append({"property_id": pid, "reason": NOT_YET.get(pid, "check not built yet in this revision (bounded-exhaustive design in DESIGN.md section 5); not claimed until its engine exists")})
    engines = {}
    for pid, c in CHECKS.items():
        engines.setdefault(c["engine"], []).append(pid)
    m = {
        "version": 1,
        "setup_cmd": "./setup.sh",
        "hooks": {
            "guard": "asn1rs_verif (reserved cfg; no hook is needed: every observation point is public API)",
            "enable": "none - checks build /repo's crates as cargo path dependencies of /verif/harness, unmodified",
            "baseline_off_cmd": "/verif/tools/repo_suite.sh",
            "source_commits": [],
            "add_only": True,
        },
        "engines": [{"name": e, "path": f"/verif/harness/{e}", "serves_properties": sorted(ps),
                     "kind_free_text": "Rust binary; bounded-exhaustive enumeration / explicit-state BFS of the real code against reference models in vcore"} for e, ps in sorted(engines.items())],
        "checks": checks,
        "not_applicable": na,
        "notes": "All checks: ./check <ID> quick|thorough (python3 driver -> cargo build --release --offline of the engine against /repo's working tree -> engine). Exit 0/1 per contract; 2 = machinery error, 3 = subject or generated code does not build. Known findings: /verif/known_findings.json. Seeded property-breaking changes: /verif/seeded/.",
    }
    json.dump(m, open(os.path.join(ROOT, "MANIFEST.json"), "w"), indent=1)
    print(f"claimed={len(checks)} not_applicable={len(na)}")

main()

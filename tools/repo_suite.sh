#!/bin/bash
# Runs the repository's own test suite (guard off; there are no hooks) and summarises it.
# Expected on a healthy tree: 317 passed, 3 failed (the 3 always_fail walker tests of BASELINE.json).
cd "${1:-/repo}" || exit 2
out=$(CARGO_NET_OFFLINE=true cargo test --workspace --no-fail-fast --offline 2>&1)
passed=$(echo "$out" | grep -E "^test .* \.\.\. ok$" | wc -l)
failed=$(echo "$out" | grep -E "^test .* \.\.\. FAILED$" | sort)
nfailed=$(echo "$failed" | grep -c . )
echo "passed=$passed failed=$nfailed"
echo "$failed"
unexpected=$(echo "$failed" | grep -v -E "generate::walker::tests::(test_potatoe_struct_has_correct_extensible_constraints|test_whatever_struct_constraint_and_read_write_impl|test_whatever_struct_type_declaration)" | grep -c .)
if echo "$out" | grep -q "could not compile"; then echo "BUILD FAILED"; echo "$out" | grep -E "^error" -A 8 | head -40; exit 1; fi
if [ "$unexpected" -ne 0 ] || [ "$passed" -lt 317 ]; then echo "SUITE NOT GREEN"; exit 1; fi
echo "SUITE OK (baseline: 312 stable passes + 5 others, 3 always-fail)"

#!/bin/bash
# try_patch.sh <patch.diff> <ID> [<ID>...]  - apply a seeded change to /repo, run the quick checks, undo it.
patch="$1"; shift
cd /repo || exit 2
if ! git diff --quiet; then echo "/repo working tree is dirty - refusing"; exit 2; fi
if ! git apply "$patch" 2>/dev/null; then
  if ! patch -p1 --fuzz=3 -s < "$patch" >/dev/null 2>&1; then echo "PATCH-DOES-NOT-APPLY"; git reset -q --hard HEAD; git clean -fdq; exit 2; fi
fi
for id in "$@"; do
  cd /verif
  out=$(./check "$id" ${TIER:-quick} 2>&1)
  rc=$?
  echo "--- $id exit=$rc"
  echo "$out" | grep -E "^(VIOLATION|SUMMARY|HARNESS|MACHINERY)" | cut -c1-330 | head -${LINES_MAX:-6}
done
cd /repo && git reset -q --hard HEAD && git clean -fdq && git status --short | head -3
# evidence/replays written while the seeded change was applied do not describe /repo: drop them
git -C /verif checkout -q -- evidence 2>/dev/null; git -C /verif clean -fdq replays evidence
